"""Shared construction of crysp block ciphers and their reference counterparts (C02, C03, C05, C10)."""
from hypothesis import strategies as st
from vlib.core import guard
from vlib import gen
from ref import aes as raes, des as rdes, serpent as rserp, threefish as rtf

from crysp.bits import Bits
from crysp.aes import AES
from crysp.des import DES, TDEA
from crysp.serpent import Serpent
from crysp.threefish import Threefish

CIPHERS = ["aes128", "aes192", "aes256", "des", "tdea", "serpent", "tf256", "tf512", "tf1024"]
BLOCK = {"aes128": 16, "aes192": 16, "aes256": 16, "des": 8, "tdea": 8, "serpent": 16, "tf256": 32, "tf512": 64, "tf1024": 128}
TDEA_FORMS = ["k1", "k1k2", "k1k2k3", "s8", "s16", "s24"]
TDEA_KEYLEN = {"k1": 8, "k1k2": 16, "k1k2k3": 24, "s8": 8, "s16": 16, "s24": 24}


def make(c, shared=None):
    """crysp object for case c = {cipher, key (bytes), form, tweak?, kbits? (serpent Bits key size)}.
    With a dict `shared`, key/tweak vectors of the "bits" form are built once and the SAME Bits objects are handed to
    every object made with that dict (they must come back unchanged: see unchanged())."""
    name, key, form = c["cipher"], c["key"], c.get("form", "bytes")
    if shared is not None and form == "bits" and name == "serpent":
        if "K" not in shared:
            shared["K"] = Bits(int.from_bytes(key, "little") & ((1 << c["kbits"]) - 1), c["kbits"])
            shared["snap"] = [(shared["K"].ival, shared["K"].size)]
        return Serpent(shared["K"])
    if shared is not None and form == "bits" and name.startswith("tf"):
        if "K" not in shared:
            shared["K"], shared["T"] = Bits(key, bitorder=1), Bits(c["tweak"], bitorder=1)
            shared["snap"] = [(shared["K"].ival, shared["K"].size), (shared["T"].ival, shared["T"].size)]
        return Threefish(shared["K"], shared["T"])
    if name.startswith("aes"):
        return AES(key)
    if name == "des":
        return DES(key)
    if name == "tdea":
        if form == "k1":
            return TDEA(key[:8])
        if form == "k1k2":
            return TDEA(key[:8], key[8:16])
        if form == "k1k2k3":
            return TDEA(key[:8], key[8:16], key[16:24])
        return TDEA(key)            # one 8/16/24-byte string
    if name == "serpent":
        if form == "bits":
            return Serpent(Bits(int.from_bytes(key, "little") & ((1 << c["kbits"]) - 1), c["kbits"]))
        return Serpent(key)
    if name.startswith("tf"):
        if form == "bits":
            return Threefish(Bits(key, bitorder=1), Bits(c["tweak"], bitorder=1))
        return Threefish(key, c["tweak"])
    raise AssertionError(name)


def unchanged(shared):
    """the caller's key/tweak vectors still hold what the caller put in"""
    if not shared or "K" not in shared:
        return True
    now = [(shared["K"].ival, shared["K"].size)] + ([(shared["T"].ival, shared["T"].size)] if "T" in shared else [])
    return now == shared["snap"]


def sibling(c):
    """an equally shaped configuration with another key (and tweak)"""
    k = bytes(255 - x for x in c["key"][::-1])
    if c["cipher"] == "serpent" and c.get("form") == "bits":
        k = (int.from_bytes(k, "little") & ((1 << c["kbits"]) - 1)).to_bytes(32, "little")
    d = dict(c, key=k)
    if "tweak" in c:
        d["tweak"] = bytes(255 - x for x in c["tweak"][::-1])
    return d


def tdea_keys(c):
    key, form = c["key"], c.get("form", "k1k2k3")
    k1 = key[:8]
    k2 = key[8:16] if TDEA_KEYLEN[form] >= 16 else k1
    k3 = key[16:24] if TDEA_KEYLEN[form] >= 24 else k1
    return k1, k2, k3


def ref_enc(c, block):
    name, key = c["cipher"], c["key"]
    if name.startswith("aes"):
        return raes.enc(key, block)
    if name == "des":
        return rdes.enc(key, block)
    if name == "tdea":
        return rdes.tdea_enc(*tdea_keys(c), block)
    if name == "serpent":
        if c.get("form") == "bits":
            return rserp.enc_bits(int.from_bytes(key, "little") & ((1 << c["kbits"]) - 1), c["kbits"], block)
        return rserp.enc(key, block)
    return rtf.tf_enc(key, c["tweak"], block)


def ref_dec(c, block):
    name, key = c["cipher"], c["key"]
    if name.startswith("aes"):
        return raes.dec(key, block)
    if name == "des":
        return rdes.dec(key, block)
    if name == "tdea":
        return rdes.tdea_dec(*tdea_keys(c), block)
    if name == "serpent":
        if c.get("form") == "bits":
            return rserp.dec_bits(int.from_bytes(key, "little") & ((1 << c["kbits"]) - 1), c["kbits"], block)
        return rserp.dec(key, block)
    return rtf.tf_dec(key, c["tweak"], block)


def keylen(name, form="bytes"):
    return {"aes128": 16, "aes192": 24, "aes256": 32, "des": 8, "serpent": 32, "tf256": 32, "tf512": 64, "tf1024": 128}.get(name) \
        or TDEA_KEYLEN[form]


DES_SPECIAL = [bytes.fromhex(k) for k in rdes.WEAK + [x for p in rdes.SEMIWEAK for x in p]]


def config_strategy(names=CIPHERS):
    """strategy of cipher configurations (without block)"""
    def for_name(name):
        if name == "tdea":
            return st.sampled_from(TDEA_FORMS).flatmap(
                lambda f: tdea_key(TDEA_KEYLEN[f]).map(lambda k: {"cipher": name, "form": f, "key": k}))
        if name == "des":
            return gen.pick((3, gen.blob(8)), (1, st.sampled_from(DES_SPECIAL))).map(lambda k: {"cipher": name, "key": k})
        if name == "serpent":
            by = gen.blob_of(gen.pick((2, st.sampled_from([1, 16, 24, 31, 32])), (1, gen.uint(1, 32)))).map(
                lambda k: {"cipher": name, "form": "bytes", "key": k})
            bi = st.tuples(gen.pick((2, st.sampled_from([1, 7, 8, 9, 127, 128, 129, 255, 256, 256, 256])), (1, gen.uint(1, 256))), gen.blob(32)).map(
                lambda t: {"cipher": name, "form": "bits", "kbits": t[0],
                           "key": (int.from_bytes(t[1], "little") & ((1 << t[0]) - 1)).to_bytes(32, "little")})
            return gen.pick((2, by), (1, bi))
        if name.startswith("tf"):
            n = BLOCK[name]
            words = lambda nb: gen.pick((3, gen.blob(nb)), (1, st.lists(st.sampled_from([b"\0" * 8, b"\xff" * 8, b"\x01" + b"\0" * 7, b"\0" * 7 + b"\x80"]),
                                                                             min_size=nb // 8, max_size=nb // 8).map(b"".join)))
            return st.tuples(words(n), words(16), st.sampled_from(["bytes", "bytes", "bits"])).map(
                lambda t: {"cipher": name, "key": t[0], "tweak": t[1], "form": t[2]})
        return gen.blob(keylen(name)).map(lambda k: {"cipher": name, "key": k})
    return st.sampled_from(list(names)).flatmap(for_name)


def tdea_key(n):
    part = gen.pick((4, gen.blob(8)), (1, st.sampled_from(DES_SPECIAL)))
    return st.lists(part, min_size=n // 8, max_size=n // 8).map(b"".join)


def label(c):
    return c["cipher"] + (":" + c["form"] if c.get("form") and c["cipher"] in ("tdea", "serpent") or c.get("form") == "bits" else "")
