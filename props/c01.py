"""C01 - MD4/MD5/SHA-0/SHA-1/SHA-2 digests equal the standards for every message.
Oracles: hashlib (where the algorithm and byte granularity allow) and ref/mdsha.py (bit-granular, resumable)."""
import hashlib
from hypothesis import strategies as st
from vlib.core import Facet, Violation, ALLOWED, guard, attempt, eq, expect
from vlib import gen
from ref import mdsha as R, padref

from crysp.bits import Bits
from crysp.md import MD4, MD5
from crysp.sha import SHA1, SHA2

RULE = ("Case = (algorithm, message bytes, optional bit length L).  Digest compared with hashlib and with the bit-granular "
        "reference.  Non-trivial = message of at least one byte.")
ASSUMPTIONS = ["hashlib (OpenSSL) implements MD5/SHA-1/SHA-2/SHA-512-t per the standards",
               "for MD4, SHA-0, bit lengths and preset counters the oracle is ref/mdsha.py, validated against hashlib, RFC 1320 and NIST bit-oriented examples",
               "L = 0 is not generated (the API reads 0 as 'not given')",
               "multi-word bit counters are reached through the public update() API from a preset chaining state "
               "(H and padmethod.bitcnt), every such state being a legitimate Merkle-Damgard midstate"]
SELFTESTS = [("mdsha", R.selftest), ("padref", padref.selftest)]

ALGS = ["md4", "md5", "sha0", "sha1", "sha224", "sha256", "sha384", "sha512", "sha512_224", "sha512_256"]
HASHLIB = {"md5", "sha1", "sha224", "sha256", "sha384", "sha512", "sha512_224", "sha512_256"}


def make(alg):
    if alg == "md4":
        return MD4()
    if alg == "md5":
        return MD5()
    if alg == "sha0":
        return SHA1(version=0)
    if alg == "sha1":
        return SHA1()
    if alg == "sha512_224":
        return SHA2(512, 224)
    if alg == "sha512_256":
        return SHA2(512, 256)
    return SHA2(int(alg[3:]))


def blockbytes(alg):
    return R.ALGS[alg][0] // 8


def check_digest(c):
    alg, M, L = c["alg"], c["M"], c["L"]
    h = guard(make, alg)
    if c.get("kw") == "pos":
        got = guard(h, M) if L is None else guard(h, M, L)
    else:
        got = guard(h, M) if L is None else guard(h, M, bitlen=L)
    exp = R.digest(alg, M, L)
    expect(isinstance(got, bytes), alg + ":type", "bytes", type(got).__name__)
    eq(len(got), R.ALGS[alg][4], alg + ":digest-length")
    eq(got, exp, alg + ":digest!=standard")
    if alg in HASHLIB and (L is None or L == 8 * len(M)):
        eq(got, hashlib.new(alg, M).digest(), alg + ":digest!=hashlib")


def classify(c):
    alg, M, L = c["alg"], c["M"], c["L"]
    B = blockbytes(alg)
    w2 = 2 * R.ALGS[alg][1] // 8
    Lb = 8 * len(M) if L is None else L
    r = (Lb // 8) % B
    lab = [alg, "blocks=%d" % min(3, Lb // (8 * B))]
    if L is not None:
        lab.append("L%8!=0" if L % 8 else "L%8==0")
        if L <= 8 * len(M) - 8:
            lab.append("L<8|M|-7")
    if r in (B - w2 - 1, B - w2):
        lab.append("spill-boundary")
    return tuple(lab)


def sweep_cases(tier, rnd):
    for alg in ALGS:
        B = blockbytes(alg)
        top = 2 * B + 9 if tier == "quick" else 3 * B + 9
        for n in range(top + 1):
            yield {"alg": alg, "M": bytes(rnd.randrange(256) for _ in range(n)), "L": None, "kw": "pos" if n % 2 else "kw"}


def bit_sweep_cases(tier, rnd):
    for alg in ALGS:
        B = blockbytes(alg)
        w2 = 2 * R.ALGS[alg][1]
        top = 2 * 8 * B + 16 if tier == "quick" else 3 * 8 * B + 16
        for L in range(1, top + 1):
            n = (L + 7) // 8
            M = bytes(rnd.randrange(256) for _ in range(n))
            yield {"alg": alg, "M": M, "L": L, "kw": "pos" if L % 3 == 0 else "kw"}
            # the prefix-of-a-longer-byte-string reading, around every boundary
            r = L % (8 * B)
            if r <= 9 or r >= 8 * B - 9 or abs(r - (8 * B - w2 - 1)) <= 9:
                extra = bytes(rnd.randrange(256) for _ in range(1 + rnd.randrange(40)))
                yield {"alg": alg, "M": M + extra, "L": L, "kw": "kw"}


def random_strategy(tier):
    def for_alg(alg):
        B = blockbytes(alg)
        w2 = 2 * R.ALGS[alg][1] // 8
        k = gen.pick((6, gen.uint(0, 3)), (1, gen.uint(4, 20 if tier == "thorough" else 8)))
        res = gen.pick((2, st.sampled_from([0, 1, B - w2 - 2, B - w2 - 1, B - w2, B - w2 + 1, B - 1])), (1, gen.uint(0, B - 1)))
        ln = st.tuples(k, res).map(lambda t: t[0] * B + t[1])

        def build(M, lmode, d, extra):
            n = len(M)
            if lmode == 0 or n == 0:
                return {"alg": alg, "M": M, "L": None}
            L = 8 * n - d
            return {"alg": alg, "M": M + extra if lmode == 2 else M, "L": L}
        return st.builds(build, gen.blob_of(ln), gen.uint(0, 2), gen.uint(0, 7), gen.blob_of(gen.uint(1, 40)))
    return st.sampled_from(ALGS).flatmap(for_alg)


# ---------------------------------------------------------------------------
# multi-word bit counters via a preset midstate
def check_preset(c):
    alg, Hw, count0, tail = c["alg"], list(c["H"]), c["count0"], c["tail"]
    w = R.ALGS[alg][1]
    h = guard(make, alg)
    guard(h.initstate)
    h.H = [Bits(v, w) for v in Hw]
    h.padmethod.bitcnt = count0
    got = guard(h.update, tail, padding=True)
    exp = R.digest(alg, tail, None, Hw, count0)
    eq(got, exp, alg + ":preset-counter:digest!=standard")


def preset_strategy(tier):
    def for_alg(alg):
        Bb, w, scheme, _, _ = R.ALGS[alg]
        nw = len(R.initial(alg))
        cs = 2 * w
        wraps_ok = scheme == "md"        # RFC 1321: only the low-order 64 bits of the length are used

        def counts():
            near_low = st.sampled_from([0, 1, 1, 1, 2, 2, 3]).map(lambda j: (1 << w) - j * Bb)                 # carry out of the low word
            above_low = gen.uint(0, 3).map(lambda j: (1 << w) + j * Bb)
            near_top = st.sampled_from([1, 1, 1, 2, 2, 3, 4]).map(lambda j: (1 << cs) - j * Bb)                 # just below the counter limit
            big = gen.nbits(cs - 11).map(lambda v: v * Bb % (1 << cs))
            small = gen.uint(0, 5).map(lambda j: j * Bb)
            opts = [(4, near_low), (1, above_low), (2, big), (1, small), (4 if wraps_ok else 2, near_top)]
            return gen.pick(*opts)

        def build(H, count0, tail):
            if not wraps_ok and count0 + 8 * len(tail) >= (1 << cs):
                tail = tail[: max(0, ((1 << cs) - 1 - count0) // 8)]
            return {"alg": alg, "H": tuple(H), "count0": count0, "tail": tail}
        return st.builds(build, st.lists(gen.nbits(w), min_size=nw, max_size=nw), counts(),
                         gen.blob_of(gen.length(Bb // 8, 3, special=[Bb // 8 - cs // 8 - 1, Bb // 8 - cs // 8])))
    return st.sampled_from(ALGS).flatmap(for_alg)


def classify_preset(c):
    alg = c["alg"]
    w = R.ALGS[alg][1]
    tot = c["count0"] + 8 * len(c["tail"])
    lab = [alg]
    if c["count0"] < (1 << w) <= tot:
        lab.append("crosses low word during tail")
    if tot >= (1 << w):
        lab.append("needs >1 counter word")
    if tot >= (1 << (2 * w)):
        lab.append("wraps counter (MD only)")
    return tuple(lab)


# ---------------------------------------------------------------------------
def check_reject(c):
    alg, M, L = c["alg"], c["M"], c["L"]
    h = guard(make, alg)
    st_, r = attempt(h, M, bitlen=L)
    if st_ == "ok":
        raise Violation(alg + ":bitlen>8|M|-accepted", "an exception", r)
    return ALLOWED


def reject_strategy(tier):
    return st.builds(lambda alg, M, d: {"alg": alg, "M": M, "L": 8 * len(M) + d}, st.sampled_from(ALGS),
                     gen.blob_of(gen.pick((1, st.just(0)), (2, gen.uint(1, 70)), (1, gen.uint(71, 300)))),
                     gen.pick((3, gen.uint(1, 8)), (1, gen.uint(9, 5000))))



# ---------------------------------------------------------------------------
# one object, several messages in a row (the digest must be the standard's for every one of them)
def check_reuse(c):
    alg = c["alg"]
    h = guard(make, alg)
    salg = ALGS[(ALGS.index(alg) + 1 + c.get("sib", 0)) % len(ALGS)] if c.get("sib") is not None else None
    sib = guard(make, salg) if salg else None         # an object of another algorithm, built after h and used between its calls
    for i, entry in enumerate(c["msgs"]):
        if sib is not None and i % 2 == 1:
            sm = bytes(range(i, i + 70))
            if guard(sib, sm) != R.digest(salg, sm, None):
                raise Violation(alg + ":reused-object:sibling-object(%s)-digest!=standard" % salg, None, None)
        if entry[0] == "update":
            # streaming use of the same object between two one-shot calls (whole blocks without padding, or a
            # padded final piece); its result is not judged here, the next one-shot digest is
            if (entry[1][:1] or b"\0")[0] % 2 == 0:
                attempt(h.initstate)          # a stream opened properly (after a finished digest update() alone is refused) ...
            attempt(h.update, entry[1], padding=entry[2])     # ... and, without padding, never finished
            continue
        M, L = entry
        if L is not None and L > 8 * len(M):
            st_, r = attempt(h, M, bitlen=L)
            if st_ == "ok":
                raise Violation(alg + ":bitlen>8|M|-accepted", "an exception", r)
            continue
        got = guard(h, M) if L is None else guard(h, M, bitlen=L)
        exp = R.digest(alg, M, L)
        if got != exp:
            raise Violation(alg + ":reused-object:digest!=standard", {"call": i, "digest": exp}, {"call": i, "digest": got})


def reuse_strategy(tier):
    def for_alg(alg):
        B = blockbytes(alg)
        msg = st.tuples(gen.blob_of(gen.pick((2, gen.uint(0, 20)), (1, gen.uint(B - 20, B + 20)), (1, gen.uint(0, 3 * B)))),
                        gen.uint(0, 3), gen.uint(1, 7)).map(
            lambda t: (t[0], None if t[1] <= 1 or not t[0] else 8 * len(t[0]) - t[2] if t[1] == 2 else 8 * len(t[0]) + t[2]))
        upd = gen.pick((3, st.tuples(st.just("update"), gen.blob_of(st.sampled_from([B, 2 * B, 0])), st.just(False))),
                       (1, st.tuples(st.just("update"), gen.blob_of(gen.uint(0, B + 20)), st.just(True))))
        return st.tuples(st.lists(gen.pick((3, msg), (1, upd)), min_size=2, max_size=4), st.sampled_from([None, 0, 3, 6])).map(
            lambda t: {"alg": alg, "sib": t[1], "msgs": tuple(t[0]) if len(t[0][-1]) == 2 else tuple(t[0]) + ((b"abc", None),)})
    return st.sampled_from(ALGS).flatmap(for_alg)


FACETS = [
    Facet("length-sweep", check_digest, cases=sweep_cases, nontrivial=lambda c: len(c["M"]) >= 1, classify=classify,
          shards={"quick": 8, "thorough": 16},
          rule="10 algorithms x EVERY byte length 0..2B+9 (3B+9 thorough), random content"),
    Facet("bit-length-sweep", check_digest, cases=bit_sweep_cases, nontrivial=lambda c: len(c["M"]) >= 1, classify=classify,
          shards={"quick": 16, "thorough": 32},
          rule="10 algorithms x EVERY bit length 1..2 blocks+16 (3 blocks thorough) with |M| = ceil(L/8), plus L as a prefix of a longer "
               "byte string around every block and spill boundary"),
    Facet("random", check_digest, strategy=random_strategy, budget={"quick": 3000, "thorough": 120000},
          nontrivial=lambda c: len(c["M"]) >= 1, classify=classify,
          rule="|M| = k*B + r, k in 0..3 (rarely up to 8 / 20), r boundary-biased on the 55/56 (111/112) spill boundary; content random / "
               "constant / single bit; L absent, within the last byte, or a prefix of a longer string"),
    Facet("preset-counter", check_preset, strategy=preset_strategy, budget={"quick": 1200, "thorough": 30000},
          nontrivial=lambda c: True, classify=classify_preset,
          rule="initstate(); H := random chaining words; padmethod.bitcnt := block multiple near 2^w, 2^(2w) or uniformly large; "
               "update(tail, padding=True) == reference resumed from the same midstate"),
    Facet("reused-object", check_reuse, strategy=reuse_strategy, budget={"quick": 800, "thorough": 20000},
          nontrivial=lambda c: len(c["msgs"]) >= 2,
          classify=lambda c: (c["alg"],
                              "has rejected call" if any(len(e) == 2 and e[1] is not None and e[1] > 8 * len(e[0]) for e in c["msgs"]) else "no rejected call",
                              "has streaming update" if any(len(e) == 3 for e in c["msgs"]) else "one-shot only",
                              "sibling object of another algorithm" if c.get("sib") is not None else "no sibling"),
          rule="2..5 calls on ONE object: one-shot digests (byte and bit lengths, some with an over-long bit length that must be refused) "
               "interleaved with streaming update() calls (whole blocks without padding, or a padded final piece); in 3 of 4 cases an object of another "
               "algorithm is built after it and used in between; every one-shot digest is judged"),
    Facet("reject-bitlen", check_reject, strategy=reject_strategy, budget={"quick": 600, "thorough": 10000},
          nontrivial=lambda c: True, classify=lambda c: (c["alg"],),
          rule="L = 8|M| + d, d >= 1: an exception, never a digest"),
]
WEIGHT = {"bit-length-sweep": 8, "length-sweep": 4, "random": 3}
