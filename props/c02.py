"""C02 - AES, DES/TDEA, Serpent and Threefish encrypt exactly as standardized.
Oracles: ref/aes.py, ref/des.py, ref/serpent.py, ref/threefish.py (independent enc AND dec)."""
from hypothesis import strategies as st
from vlib.core import Facet, Violation, ALLOWED, guard, attempt, eq, expect
from vlib import gen
from ref import aes as raes, des as rdes, serpent as rserp, threefish as rtf
from props import _ciphers as CI

from crysp.bits import Bits
from crysp import aes as caes
from crysp.aes import AES
from crysp.des import DES, TDEA
from crysp.serpent import Serpent
from crysp.threefish import Threefish

RULE = ("Case = (cipher, key-passing form, key, tweak, block, direction).  enc and dec are compared with separately written "
        "reference enc/dec.  Non-trivial = key and block not both constant-byte strings.")
ASSUMPTIONS = ["reference ciphers validated by FIPS-197 / FIPS 81 / NBS SP 500-20 / NESSIE / Skein 1.3 vectors (and the OpenSSL CLI for DES/3DES when present)",
               "Serpent byte strings are little-endian (byte 0 = least significant byte of word 0), as tests/test_serpent.py feeds the NESSIE vectors"]
SELFTESTS = [("aes", raes.selftest), ("des", rdes.selftest), ("serpent", rserp.selftest), ("threefish", rtf.selftest)]


def const_bytes(b):
    return len(set(b)) <= 1


def check_block(c):
    obj = guard(CI.make, c)
    blk = c["block"]
    n = CI.BLOCK[c["cipher"]]
    arg = Bits(blk, bitorder=1) if c.get("blockform") == "bits" and c["cipher"].startswith("tf") else blk
    tag = CI.label(c)
    if c["dir"] in ("enc", "both"):
        got = guard(obj.enc, arg)
        exp = CI.ref_enc(c, blk)
        expect(isinstance(got, bytes) and len(got) == n, tag + ":enc:type/length", n, repr(got)[:80])
        if got != exp:
            raise Violation(tag + ":enc!=standard", exp, got)
    if c["dir"] in ("dec", "both"):
        got = guard(obj.dec, arg)
        exp = CI.ref_dec(c, blk)
        expect(isinstance(got, bytes) and len(got) == n, tag + ":dec:type/length", n, repr(got)[:80])
        if got != exp:
            raise Violation(tag + ":dec!=standard", exp, got)


def block_strategy(tier):
    def with_block(c):
        n = CI.BLOCK[c["cipher"]]
        return st.tuples(gen.blob(n), st.sampled_from(["enc", "dec", "both"]), st.sampled_from(["bytes", "bytes", "bits"])).map(
            lambda t: dict(c, block=t[0], dir=t[1], blockform=t[2]))
    return CI.config_strategy().flatmap(with_block)


def nontriv_block(c):
    return not (const_bytes(c["key"]) and const_bytes(c["block"]))


def classify_block(c):
    return (CI.label(c), c["dir"], "special-key" if const_bytes(c["key"]) or c["key"] in CI.DES_SPECIAL else "random-key")


def singlebit_cases(tier, rnd):
    """every single-bit block, key and tweak per configuration (the other operands random), both directions"""
    def rb(n):
        return bytes(rnd.randrange(256) for _ in range(n))
    confs = []
    for name in ("aes128", "aes192", "aes256", "des"):
        confs.append({"cipher": name})
    for f in CI.TDEA_FORMS:
        confs.append({"cipher": "tdea", "form": f})
    confs.append({"cipher": "serpent", "form": "bytes"})
    for name in ("tf256", "tf512", "tf1024"):
        confs.append({"cipher": name, "form": "bytes"})
    for conf in confs:
        name = conf["cipher"]
        n = CI.BLOCK[name]
        kl = CI.keylen(name, conf.get("form", "bytes"))
        base = dict(conf)
        if name.startswith("tf"):
            base["tweak"] = rb(16)
        key = rb(kl)
        for i in range(8 * n):
            yield dict(base, key=key, block=(1 << i).to_bytes(n, "big"), dir="both")
        blk = rb(n)
        for i in range(8 * kl):
            yield dict(base, key=(1 << i).to_bytes(kl, "big"), block=blk, dir="enc" if i % 2 else "dec")
        if name.startswith("tf"):
            for i in range(128):
                yield dict(base, key=key, tweak=(1 << i).to_bytes(16, "big"), block=blk, dir="enc" if i % 2 else "dec")
        for k0, b0 in ((b"\0", b"\0"), (b"\xff", b"\xff"), (b"\0", b"\xff"), (b"\xff", b"\0")):
            c = dict(base, key=k0 * kl, block=b0 * n, dir="both")
            if name.startswith("tf"):
                c["tweak"] = k0 * 16
            yield c
    # Serpent: every key length in bits 1..256 (Bits key) and every byte length 1..32
    blk = rb(16)
    for kb in range(1, 257):
        v = rnd.getrandbits(kb) | (1 << (kb - 1))
        yield {"cipher": "serpent", "form": "bits", "kbits": kb, "key": v.to_bytes(32, "little"), "block": blk, "dir": "both" if kb % 8 == 0 else "enc"}
    for kl in range(1, 33):
        yield {"cipher": "serpent", "form": "bytes", "key": rb(kl), "block": blk, "dir": "both"}
    # DES weak / semi-weak keys, parity-only differences
    for k in CI.DES_SPECIAL:
        yield {"cipher": "des", "key": k, "block": rb(8), "dir": "both"}
        yield {"cipher": "des", "key": bytes(x ^ 1 for x in k), "block": rb(8), "dir": "both"}
        yield {"cipher": "tdea", "form": "s16", "key": k + rb(8), "block": rb(8), "dir": "both"}


# ---------------------------------------------------------------------------
def check_gmul(c):
    a, b = c
    got = guard(caes.gmul, a, b)
    eq(got, raes.gmul(a, b), "gmul")


def gmul_cases(tier, rnd):
    for a in range(256):
        for b in range(256):
            yield (a, b)


# ---------------------------------------------------------------------------
# sizes the algorithm does not define must be refused
def check_reject(c):
    what = c["what"]
    if what == "key":
        name = c["cipher"]
        if name == "aes":
            st_, r = attempt(lambda: AES(c["key"]).enc(bytes(16)))
        elif name == "des":
            st_, r = attempt(lambda: DES(c["key"]).enc(bytes(8)))
        elif name == "tdea-string":
            st_, r = attempt(lambda: TDEA(c["key"]).enc(bytes(8)))
        elif name == "tdea-args":
            st_, r = attempt(lambda: TDEA(*c["keys"]).enc(bytes(8)))
        elif name == "serpent":
            st_, r = attempt(lambda: Serpent(c["key"]).enc(bytes(16)))
        elif name == "serpent-bits":
            st_, r = attempt(lambda: Serpent(Bits(1 << (c["kbits"] - 1), c["kbits"])).enc(bytes(16)))
        elif name == "threefish":
            st_, r = attempt(lambda: Threefish(c["key"], bytes(16)).enc(bytes(len(c["key"]))))
        elif name == "threefish-tweak":
            st_, r = attempt(lambda: Threefish(bytes(32), c["tweak"]).enc(bytes(32)))
        sig = "%s:undefined-key-size-accepted" % name
    else:
        conf = c["conf"]
        obj = guard(CI.make, conf)
        f = obj.enc if c["dir"] == "enc" else obj.dec
        st_, r = attempt(f, c["block"])
        sig = "%s:%s:undefined-block-size-accepted" % (conf["cipher"], c["dir"])
    if st_ == "ok":
        raise Violation(sig, "an exception", r)
    return ALLOWED


def reject_strategy(tier):
    def bad_len(good, lo, hi):
        return gen.uint(lo, hi).filter(lambda n: n not in good)
    aesk = gen.blob_of(bad_len((16, 24, 32), 0, 40)).map(lambda k: {"what": "key", "cipher": "aes", "key": k})
    desk = gen.blob_of(bad_len((8,), 0, 20)).map(lambda k: {"what": "key", "cipher": "des", "key": k})
    tdk = gen.blob_of(bad_len((8, 16, 24), 1, 40)).map(lambda k: {"what": "key", "cipher": "tdea-string", "key": k})
    tda = st.tuples(gen.blob(8), gen.blob_of(bad_len((8,), 0, 20)), st.booleans()).map(
        lambda t: {"what": "key", "cipher": "tdea-args", "keys": (t[0], t[1]) if t[2] else (t[0], t[0], t[1])})
    serk = gen.blob_of(gen.uint(33, 70)).map(lambda k: {"what": "key", "cipher": "serpent", "key": k})
    serb = gen.uint(257, 600).map(lambda n: {"what": "key", "cipher": "serpent-bits", "kbits": n})
    tfk = gen.blob_of(bad_len((32, 64, 128), 1, 140)).map(lambda k: {"what": "key", "cipher": "threefish", "key": k})
    tft = gen.blob_of(bad_len((16,), 0, 40)).map(lambda t: {"what": "key", "cipher": "threefish-tweak", "tweak": t})

    def blk(conf):
        n = CI.BLOCK[conf["cipher"]]
        ln = gen.pick((2, st.sampled_from([0, n - 1, n + 1, 2 * n])), (1, gen.uint(0, 2 * n + 3))).filter(lambda x: x != n)
        return st.tuples(gen.blob_of(ln), st.sampled_from(["enc", "dec"])).map(
            lambda t: {"what": "block", "conf": conf, "block": t[0], "dir": t[1]})
    blocks = CI.config_strategy().flatmap(blk)
    return gen.pick((1, aesk), (1, desk), (1, tdk), (1, tda), (1, serk), (1, serb), (1, tfk), (1, tft), (8, blocks))


def reject_cases(tier, rnd):
    """EVERY undefined key / tweak / block length in the ranges the sampled facet draws from"""
    def rb(n):
        return bytes(rnd.randrange(1, 256) for _ in range(n))
    for n in range(0, 41):
        if n not in (16, 24, 32):
            yield {"what": "key", "cipher": "aes", "key": rb(n)}
        if n not in (8,) and n <= 20:
            yield {"what": "key", "cipher": "des", "key": rb(n)}
            yield {"what": "key", "cipher": "tdea-args", "keys": (rb(8), rb(n))}
            yield {"what": "key", "cipher": "tdea-args", "keys": (rb(8), rb(8), rb(n))}
        if n not in (8, 16, 24) and n >= 1:
            yield {"what": "key", "cipher": "tdea-string", "key": rb(n)}
        if n != 16:
            yield {"what": "key", "cipher": "threefish-tweak", "tweak": rb(n)}
    for n in range(33, 71):
        yield {"what": "key", "cipher": "serpent", "key": rb(n)}
    for n in list(range(257, 300)) + [320, 384, 512, 600]:
        yield {"what": "key", "cipher": "serpent-bits", "kbits": n}
    for n in range(1, 141):
        if n not in (32, 64, 128):
            yield {"what": "key", "cipher": "threefish", "key": rb(n)}
    for name in CI.CIPHERS:
        B = CI.BLOCK[name]
        conf = {"cipher": name, "key": rb(CI.keylen(name, "bytes") if name != "tdea" else 24), "form": "bytes"}
        if name.startswith("tf"):
            conf["tweak"] = rb(16)
        for n in sorted(set(range(0, 2 * B + 4)) | {32, 64, 128, 256}):
            if n != B:
                for d in ("enc", "dec"):
                    yield {"what": "block", "conf": conf, "block": rb(n), "dir": d}


def classify_reject(c):
    return (c["what"], c["cipher"] if c["what"] == "key" else c["conf"]["cipher"])



# ---------------------------------------------------------------------------
# one object, several enc/dec calls in a row: every result is the standard's
def check_history(c):
    shared = {}
    obj = guard(CI.make, c, shared)
    tag = CI.label(c)
    n = CI.BLOCK[c["cipher"]]
    sc = CI.sibling(c)
    sib = guard(CI.make, sc) if c.get("sib") else None     # another key, built after obj, used between its calls
    for i, (d, blk) in enumerate(c["calls"]):
        if sib is not None and i % 2 == 1:
            sb = blk[:n].ljust(n, b"s")
            if guard(sib.enc, sb) != CI.ref_enc(sc, sb):
                raise Violation("%s:call-history:sibling-object:enc!=standard" % tag, None, None)
        if i == len(c["calls"]) - 1 and "K" in shared:
            obj = guard(CI.make, c, shared)                # a later object on the caller's same key vectors
            if not CI.unchanged(shared):
                raise Violation("%s:call-history:caller's-key-vector-changed" % tag, shared["snap"], None)
        if d.startswith("bad-"):
            # a block of the wrong size is refused (judged by the undefined-sizes facet); here it only disturbs the object
            attempt(getattr(obj, d[4:]), blk)
            continue
        if d == "enc":
            got, exp = guard(obj.enc, blk), CI.ref_enc(c, blk)
        else:
            got, exp = guard(obj.dec, blk), CI.ref_dec(c, blk)
        if got != exp:
            raise Violation("%s:call-history:%s!=standard" % (tag, d), {"call": i, "out": exp}, {"call": i, "out": got})


def history_strategy(tier):
    def with_calls(c):
        n = CI.BLOCK[c["cipher"]]
        call = st.tuples(st.sampled_from(["enc", "dec"]), gen.blob(n))
        bad = st.tuples(st.sampled_from(["bad-enc", "bad-dec"]), gen.blob_of(st.sampled_from([n - 1, n + 1, 0, n // 2, 2 * n])))
        return st.tuples(st.lists(gen.pick((5, call), (1, bad)), min_size=2, max_size=6), st.booleans()).map(
            lambda t: dict(c, sib=t[1], calls=tuple(t[0]) if not t[0][-1][0].startswith("bad-") else tuple(t[0]) + (("enc", bytes(n)), ("dec", bytes(n)))))
    return CI.config_strategy().flatmap(with_calls)


FACETS = [
    Facet("gmul-exhaustive", check_gmul, cases=gmul_cases, exhaustive=True, distinct=True,
          nontrivial=lambda c: c[0] > 1 and c[1] > 1, shards={"quick": 2, "thorough": 2},
          rule="all 65 536 byte pairs against shift-and-reduce modulo x^8+x^4+x^3+x+1"),
    Facet("single-bit-sweeps", check_block, cases=singlebit_cases, nontrivial=nontriv_block, classify=classify_block,
          shards={"quick": 16, "thorough": 16},
          rule="per configuration (AES-128/192/256, DES, TDEA in its 6 key-passing forms, Serpent, Threefish-256/512/1024): every single-bit "
               "block, every single-bit key, every single-bit tweak, all-zero/all-one combinations; Serpent with every key length 1..256 bits "
               "and 1..32 bytes; DES weak/semi-weak keys and their parity variants"),
    Facet("random-blocks", check_block, strategy=block_strategy, budget={"quick": 5000, "thorough": 100000},
          shards={"quick": 16, "thorough": 32}, nontrivial=nontriv_block, classify=classify_block,
          rule="random configuration (keys random / weak / zero-one words), random-constant-single-bit blocks, enc, dec or both"),
    Facet("call-histories", check_history, strategy=history_strategy, budget={"quick": 1600, "thorough": 30000},
          shards={"quick": 16, "thorough": 32}, nontrivial=lambda c: len(c["calls"]) >= 2,
          classify=lambda c: (CI.label(c), "".join(d[0] for d, _ in c["calls"])[:3],
                              "has refused call" if any(d.startswith("bad-") for d, _ in c["calls"]) else "no refused call",
                              "sibling object with another key" if c.get("sib") else "no sibling"),
          rule="2..6 enc/dec calls with different blocks on ONE object, each compared with the reference (cached key schedules, stale state); "
               "one call in six passes a block of the wrong size (refused) before the following calls are judged; in half of the cases a sibling object "
               "with another key is used in between; the last call is made by a later object built on the caller's same Bits key vectors (unchanged)"),
    Facet("undefined-sizes-all", check_reject, cases=reject_cases, exhaustive=False, distinct=True, nontrivial=lambda c: True, classify=classify_reject,
          shards={"quick": 8, "thorough": 8},
          rule="EVERY undefined length: AES keys 0..40 B, DES keys and TDEA arguments 0..20 B, TDEA strings 1..40 B, Serpent keys 33..70 B / 257..600 bits, "
               "Threefish keys 1..140 B and tweaks 0..40 B, blocks of every length 0..2B+3 (and 32/64/128/256 B) for all nine configurations, both directions"),
    Facet("undefined-sizes", check_reject, strategy=reject_strategy, budget={"quick": 1200, "thorough": 20000},
          nontrivial=lambda c: True, classify=classify_reject,
          rule="AES key not in {16,24,32}, DES key != 8, TDEA strings/arguments of other lengths, Serpent key > 256 bits, Threefish key/tweak "
               "of other sizes, blocks shorter and longer than the block size: must raise, returning bytes is the violation"),
]
WEIGHT = {"single-bit-sweeps": 8, "random-blocks": 4}
