"""C03 - Every block cipher is a permutation: dec inverts enc, and so do their parts.
Oracle: round trip only (no reference needed; C02 covers errors common to both directions)."""
import itertools
from hypothesis import strategies as st
from vlib.core import Facet, Violation, ALLOWED, guard, attempt, eq, expect
from vlib import gen
from props import _ciphers as CI

from crysp.bits import Bits
from crysp.poly import Poly
from crysp import aes as caes, des as cdes, serpent as cser, salsa20 as csal, chacha as ccha, wb as cwb
from crysp.utils.operators import rol, ror

RULE = ("Round trips f_inv(f(x)) == x == f(f_inv(x)); finite component domains are enumerated completely.  "
        "Non-trivial = block not constant / component input non-zero.")
ASSUMPTIONS = ["round trips cannot see a change made consistently to both directions (that is C02's job)"]


def check_roundtrip(c):
    obj = guard(CI.make, c)
    blk = c["block"]
    n = CI.BLOCK[c["cipher"]]
    tag = CI.label(c)
    e = guard(obj.enc, blk)
    expect(isinstance(e, bytes) and len(e) == n, tag + ":|enc(B)|!=|B|", n, repr(e)[:80])
    d = guard(obj.dec, e)
    if d != blk:
        raise Violation(tag + ":dec(enc(B))!=B", blk, d)
    d2 = guard(obj.dec, blk)
    expect(isinstance(d2, bytes) and len(d2) == n, tag + ":|dec(B)|!=|B|", n, repr(d2)[:80])
    e2 = guard(obj.enc, d2)
    if e2 != blk:
        raise Violation(tag + ":enc(dec(B))!=B", blk, e2)
    if c.get("fresh"):
        # an equally configured second object inverts the first one
        other = guard(CI.make, c)
        if guard(other.dec, e) != blk:
            raise Violation(tag + ":other-object-dec(enc(B))!=B", blk, None)


def check_rt_history(c):
    """one object, several round trips in both orders, interleaved with bare calls and refused (wrong-size) calls"""
    shared = {}
    obj = guard(CI.make, c, shared)
    tag = CI.label(c) + ":history"
    n = CI.BLOCK[c["cipher"]]
    sc = CI.sibling(c)
    sib = guard(CI.make, sc) if c.get("sib") else None     # another key, built after obj, used between its calls
    for i, (kind, blk) in enumerate(c["calls"]):
        if sib is not None and i % 2 == 1:
            if guard(sib.dec, guard(sib.enc, blk[:n].ljust(n, b"s"))) != blk[:n].ljust(n, b"s"):
                raise Violation(tag + ":sibling-object:dec(enc(B))!=B", None, None)
        if not CI.unchanged(shared):
            raise Violation(tag + ":caller's-key-vector-changed", shared["snap"], None)
        if kind.startswith("bad-"):
            attempt(getattr(obj, kind[4:]), blk)
        elif kind == "wb-rounds":
            # another public user of the DES key-schedule helpers works in between: white-box round tables for another key,
            # rounds 0..k only (a generation that is given up half-way)
            for r in range([15, 2, 15, 2, 1, 8, 16, 5][blk[0] % 8]):      # stopping one round short / after two rounds are the telling ones
                attempt(cwb.table_rKT, r, Bits(blk[:8].ljust(8, b"k"), 64))
        elif kind in ("enc", "dec"):
            r = guard(getattr(obj, kind), blk)
            expect(isinstance(r, bytes) and len(r) == n, tag + ":|%s(B)|!=|B|" % kind, n, repr(r)[:80])
        elif kind == "rt":
            e = guard(obj.enc, blk)
            d = guard(obj.dec, e)
            if d != blk:
                raise Violation(tag + ":dec(enc(B))!=B", {"call": i, "B": blk}, {"call": i, "B": d})
            if guard(guard(CI.make, c, shared).dec, e) != blk:
                raise Violation(tag + ":other-object-dec(enc(B))!=B", {"call": i, "B": blk}, None)
        elif kind == "tr":
            d = guard(obj.dec, blk)
            e = guard(obj.enc, d)
            if e != blk:
                raise Violation(tag + ":enc(dec(B))!=B", {"call": i, "B": blk}, {"call": i, "B": e})
            if guard(guard(CI.make, c, shared).enc, d) != blk:
                raise Violation(tag + ":other-object-enc(dec(B))!=B", {"call": i, "B": blk}, None)
        else:
            raise AssertionError(kind)


def rt_history_strategy(tier):
    def with_calls(c):
        n = CI.BLOCK[c["cipher"]]
        good = st.tuples(st.sampled_from(["rt", "tr", "rt", "tr", "enc", "dec"]), gen.blob(n))
        bad = st.tuples(st.sampled_from(["bad-enc", "bad-dec"]), gen.blob_of(st.sampled_from([n - 1, n + 1, 0, n // 2, 2 * n])))
        if c["cipher"] in ("des", "tdea"):
            bad = gen.pick((2, bad), (1, st.tuples(st.just("wb-rounds"), gen.blob(8))))
        return st.tuples(st.lists(gen.pick((4, good), (1, bad)), min_size=2, max_size=6), st.booleans()).map(
            lambda t: dict(c, sib=t[1], calls=tuple(t[0]) + (("rt", bytes(range(n))), ("tr", bytes(range(n))))))
    # Bits-typed keys (one key vector shared by all objects of a case) are rare in the general mix: one case in five takes them
    bits_keyed = gen.pick((2, gen.blob(32).map(lambda k: {"cipher": "serpent", "form": "bits", "kbits": 256, "key": k})),
                          (1, st.tuples(gen.blob(32), gen.blob(16)).map(lambda t: {"cipher": "tf256", "form": "bits", "key": t[0], "tweak": t[1]})))
    return gen.pick((4, CI.config_strategy()), (1, bits_keyed)).flatmap(with_calls)


def roundtrip_strategy(tier):
    def with_block(c):
        n = CI.BLOCK[c["cipher"]]
        return st.tuples(gen.blob(n), st.booleans()).map(lambda t: dict(c, block=t[0], fresh=t[1]))
    return CI.config_strategy().flatmap(with_block)


def roundtrip_cases(tier, rnd):
    """every single-bit block under a random key, per configuration"""
    def rb(n):
        return bytes(rnd.randrange(256) for _ in range(n))
    for name in CI.CIPHERS:
        n = CI.BLOCK[name]
        forms = CI.TDEA_FORMS if name == "tdea" else ["bytes"]
        for f in forms:
            c = {"cipher": name, "form": f, "key": rb(CI.keylen(name, f))}
            if name.startswith("tf"):
                c["tweak"] = rb(16)
            step = 1 if tier == "thorough" or n <= 16 else 3
            for i in range(0, 8 * n, step):
                yield dict(c, block=(1 << i).to_bytes(n, "big"))
            yield dict(c, block=b"\0" * n)
            yield dict(c, block=b"\xff" * n)


# ---------------------------------------------------------------------------
# components
def bits128(v):
    return Bits(v, 128)


def same_bits(a, v, n, sig):
    if not isinstance(a, Bits) or a.ival != v or a.size != n:
        raise Violation(sig, {"ival": v, "size": n}, {"ival": getattr(a, "ival", None), "size": getattr(a, "size", None)} if isinstance(a, Bits) else repr(a)[:80])


def check_component(c):
    comp = c["comp"]
    if comp == "aes-sbox":
        vals = list(c["vals"])
        s = Poly(vals, 8)
        f = guard(caes.Sbox, s)
        eq(list(guard(caes.Sbox_inv, f).ival), vals, "Sbox_inv(Sbox(x))!=x")
        g = guard(caes.Sbox_inv, Poly(vals, 8))
        eq(list(guard(caes.Sbox, g).ival), vals, "Sbox(Sbox_inv(x))!=x")
        eq(list(s.ival), vals, "Sbox:operand-changed")
    elif comp in ("aes-shiftrows", "aes-mixcolumns", "aes-subbytes"):
        vals = list(c["vals"])
        A = caes.AES(bytes(16))
        f, g = {"aes-shiftrows": (A.ShiftRows, A.InvShiftRows), "aes-mixcolumns": (A.MixColumns, A.InvMixColumns),
                "aes-subbytes": (A.SubBytes, A.InvSubBytes)}[comp]
        s = Poly(vals, 8)
        guard(f, s)
        eq(s.dim, 16, comp + ":state-size")
        guard(g, s)
        eq(list(s.ival), vals, comp + ":inv(f(x))!=x")
        guard(g, s)
        guard(f, s)
        eq(list(s.ival), vals, comp + ":f(inv(x))!=x")
    elif comp == "des-ip":
        v = c["v"]
        same_bits(guard(cdes.IPinv, guard(cdes.IP, Bits(v, 64))), v, 64, "IPinv(IP(x))!=x")
        same_bits(guard(cdes.IP, guard(cdes.IPinv, Bits(v, 64))), v, 64, "IP(IPinv(x))!=x")
    elif comp == "serpent-sbox":
        i, v = c["box"], c["v"]
        same_bits(guard(cser._Sinv, i, guard(cser._S, i, bits128(v))), v, 128, "_Sinv(_S(x))!=x")
        same_bits(guard(cser._S, i, guard(cser._Sinv, i, bits128(v))), v, 128, "_S(_Sinv(x))!=x")
    elif comp == "serpent-ipfp":
        v = c["v"]
        same_bits(guard(cser._FP, guard(cser._IP, bits128(v))), v, 128, "_FP(_IP(x))!=x")
        same_bits(guard(cser._IP, guard(cser._FP, bits128(v))), v, 128, "_IP(_FP(x))!=x")
    elif comp == "serpent-linear":
        v = c["v"]
        same_bits(guard(cser._Linv, guard(cser._L, bits128(v))), v, 128, "_Linv(_L(x))!=x")
        same_bits(guard(cser._L, guard(cser._Linv, bits128(v))), v, 128, "_L(_Linv(x))!=x")
    elif comp == "rot-bits":
        n, k, v = c["n"], c["k"], c["v"]
        x = Bits(v, n)
        r = guard(rol, x, k)
        exp = ((v << k) | (v >> (n - k))) & ((1 << n) - 1) if n else 0
        same_bits(r, exp, n, "rol!=rotation")
        same_bits(guard(ror, r, k), v, n, "ror(rol(x,k),k)!=x")
        same_bits(guard(rol, guard(ror, x, k), k), v, n, "rol(ror(x,k),k)!=x")
        same_bits(x, v, n, "rol/ror:operand-changed")
    elif comp == "rot-poly":
        n, k, vals = c["n"], c["k"], list(c["vals"])
        x = Poly(vals, n)
        r = guard(rol, x, k)
        exp = [((v << k) | (v >> (n - k))) & ((1 << n) - 1) for v in vals]
        eq(list(r.ival), exp, "rol(Poly)!=rotation")
        eq(list(guard(ror, r, k).ival), vals, "ror(rol(Poly))!=x")
        eq(list(guard(rol, guard(ror, x, k), k).ival), vals, "rol(ror(Poly))!=x")
    elif comp == "index-maps":
        vals = list(c["vals"])
        for mod, name in ((csal, "salsa20"), (ccha, "chacha")):
            for a, b in (("rM", "rMinv"), ("cM", "cMinv")):
                fa, fb = getattr(mod, a), getattr(mod, b)
                eq(sorted(fa), list(range(16)), "%s.%s:not-a-permutation" % (name, a))
                p = Poly(vals, 32)
                eq(list(guard(lambda: p[fa][fb]).ival), vals, "%s:x[%s][%s]!=x" % (name, a, b))
                eq(list(guard(lambda: p[fb][fa]).ival), vals, "%s:x[%s][%s]!=x" % (name, b, a))
    else:
        raise AssertionError(comp)


def component_cases(tier, rnd):
    # AES S-box: all 256 values (16 states of 16 consecutive values) + as one 256-vector
    for b in range(16):
        yield {"comp": "aes-sbox", "vals": tuple(range(16 * b, 16 * b + 16))}
    yield {"comp": "aes-sbox", "vals": tuple(range(256))}
    for comp in ("aes-shiftrows", "aes-subbytes"):
        yield {"comp": comp, "vals": tuple(range(16))}
        yield {"comp": comp, "vals": tuple(range(240, 256))}
        for _ in range(20):
            yield {"comp": comp, "vals": tuple(rnd.randrange(256) for _ in range(16))}
    for pos in range(16):                      # MixColumns is GF(2)-linear: every single-byte state decides it
        for v in range(256):
            yield {"comp": "aes-mixcolumns", "vals": tuple(v if i == pos else 0 for i in range(16))}
    for _ in range(50):
        yield {"comp": "aes-mixcolumns", "vals": tuple(rnd.randrange(256) for _ in range(16))}
    for i in range(64):
        yield {"comp": "des-ip", "v": 1 << i}
    for _ in range(100):
        yield {"comp": "des-ip", "v": rnd.getrandbits(64)}
    for v in (0, (1 << 64) - 1):
        yield {"comp": "des-ip", "v": v}
    for box in range(8):
        for val in range(16):
            for pos in range(32):               # value val in bit-slice position pos (bits pos, pos+32, pos+64, pos+96)
                x = 0
                for k in range(4):
                    if (val >> k) & 1:
                        x |= 1 << (pos + 32 * k)
                yield {"comp": "serpent-sbox", "box": box, "v": x}
            x = 0
            for k in range(4):                  # the same value in all 32 positions
                if (val >> k) & 1:
                    x |= 0xffffffff << (32 * k)
            yield {"comp": "serpent-sbox", "box": box, "v": x}
        for _ in range(10):
            yield {"comp": "serpent-sbox", "box": box, "v": rnd.getrandbits(128)}
    for i in range(128):
        yield {"comp": "serpent-ipfp", "v": 1 << i}
        yield {"comp": "serpent-linear", "v": 1 << i}
    for _ in range(100):
        yield {"comp": "serpent-ipfp", "v": rnd.getrandbits(128)}
        yield {"comp": "serpent-linear", "v": rnd.getrandbits(128)}
    for _ in range(30):
        yield {"comp": "index-maps", "vals": tuple(rnd.sample(range(1 << 32), 16))}
    yield {"comp": "index-maps", "vals": tuple(range(16))}


def rot_cases(tier, rnd):
    top = 11 if tier == "quick" else 16
    for n in range(1, top + 1):
        for k in range(n + 1):
            for v in range(1 << n):
                yield {"comp": "rot-bits", "n": n, "k": k, "v": v}


def rot_strategy(tier):
    widths = gen.pick((3, st.sampled_from([31, 32, 33, 63, 64, 65, 128, 1024, 2048])), (1, gen.uint(17, 300)))

    def for_width(n):
        bits = st.tuples(gen.uint(0, n), gen.nbits(n)).map(lambda t: {"comp": "rot-bits", "n": n, "k": t[0], "v": t[1]})
        poly = st.tuples(gen.uint(0, n), st.lists(gen.nbits(n), min_size=1, max_size=4)).map(
            lambda t: {"comp": "rot-poly", "n": n, "k": t[0], "vals": tuple(t[1])})
        return gen.pick((2, bits), (1, poly))
    return widths.flatmap(for_width)


def nontriv_comp(c):
    if "v" in c:
        return c["v"] != 0
    return any(c.get("vals", ()))


FACETS = [
    Facet("cipher-roundtrip-singlebit", check_roundtrip, cases=roundtrip_cases, shards={"quick": 16, "thorough": 16},
          nontrivial=lambda c: len(set(c["block"])) > 1, classify=lambda c: (CI.label(c),),
          rule="per configuration (all TDEA key-passing forms): every single-bit block (every third bit for Threefish in the quick tier), zero and all-one blocks, random key"),
    Facet("cipher-roundtrip-random", check_roundtrip, strategy=roundtrip_strategy, budget={"quick": 3000, "thorough": 60000},
          shards={"quick": 16, "thorough": 32}, nontrivial=lambda c: len(set(c["block"])) > 1, classify=lambda c: (CI.label(c),),
          rule="random configurations and blocks: dec(enc(B)) == B == enc(dec(B)), lengths, and a second equally configured object decrypts"),
    Facet("cipher-roundtrip-histories", check_rt_history, strategy=rt_history_strategy, budget={"quick": 1200, "thorough": 30000},
          shards={"quick": 16, "thorough": 32}, nontrivial=lambda c: len(c["calls"]) >= 3,
          classify=lambda c: (CI.label(c), "has refused call" if any(k.startswith("bad-") for k, _ in c["calls"]) else "no refused call",
                              "sibling object with another key" if c.get("sib") else "no sibling",
                              "white-box table generation in between" if any(k == "wb-rounds" for k, _ in c["calls"]) else "no foreign key-schedule use"),
          rule="ONE object: 4..8 calls mixing round trips in both orders, bare enc/dec calls and refused calls with a block of the wrong "
               "size; every round trip is also inverted by a fresh equally configured object (for Bits-typed Serpent/Threefish keys built "
               "from the SAME key vectors, which must stay unchanged); in half of the cases a sibling object with another key works in between"),
    Facet("components-exhaustive", check_component, cases=component_cases, exhaustive=True, distinct=False,
          nontrivial=nontriv_comp, classify=lambda c: (c["comp"],), shards={"quick": 8, "thorough": 8},
          rule="AES Sbox/Sbox_inv on all 256 values, ShiftRows/SubBytes position states, MixColumns on all 16x256 single-byte states "
               "(GF(2)-linear), DES IP/IPinv on the 64 unit vectors, Serpent _S/_Sinv for 8 boxes x 16 values x 32 bit-slice positions, "
               "_IP/_FP and _L/_Linv on the 128 unit vectors, Salsa20/ChaCha rM/rMinv/cM/cMinv; + random states; both composition orders"),
    Facet("rotations-exhaustive", check_component, cases=rot_cases, exhaustive=True, distinct=True,
          nontrivial=nontriv_comp, classify=lambda c: ("n=%d" % c["n"],), shards={"quick": 8, "thorough": 16},
          rule="rol/ror on Bits: every width 1..11 (1..16 thorough), every amount 0..width, every value; rol == exact rotation and ror inverts it"),
    Facet("rotations-wide", check_component, strategy=rot_strategy, budget={"quick": 3000, "thorough": 60000},
          nontrivial=nontriv_comp, classify=lambda c: (c["comp"], "n=%d" % c["n"] if c["n"] in (32, 64, 128, 1024, 2048) else "n=other"),
          rule="widths {31,32,33,63,64,65,128,1024,2048} and 17..300, amounts 0..width, on Bits and on Poly coefficients"),
]
WEIGHT = {"cipher-roundtrip-singlebit": 8, "cipher-roundtrip-random": 5, "rotations-exhaustive": 3}
