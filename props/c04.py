"""C04 - Keccak sponge, SHA-3 and SHAKE equal FIPS 202 for every input and configuration.
Oracles: ref/keccak.py (sponge on bit lists, validated against hashlib SHA-3/SHAKE and KeccakKAT vectors) and hashlib."""
import hashlib
from hypothesis import strategies as st
from vlib.core import Facet, Violation, ALLOWED, guard, attempt, eq, expect
from vlib import gen
from ref import keccak as R

from crysp.keccak import Keccak, keccak_224, keccak_256, keccak_384, keccak_512
from crysp import keccak as ck
from crysp.sha import SHA3, SHAKE128, SHAKE256

RULE = ("Case = (width b, rate r, message bytes, bit length L, output bits d, bit-order mode, constructor keywords).  "
        "Output compared with the reference sponge (first d bits, LSB-first packing, ceil(d/8) bytes).  "
        "Non-trivial = L >= 1 or d > r.")
ASSUMPTIONS = ["hashlib implements FIPS 202", "L = 0 is only generated with the empty message (the API reads 0 as 'not given')",
               "the NIST mode takes the partial last byte as byte >> (8-n), LSB-first (Keccak submission 6.1); native mode is LSB-first"]
SELFTESTS = [("keccak", R.selftest)]

WIDTHS = [25, 50, 100, 200, 400, 800, 1600]


def make(c):
    b, r, d = c["b"], c["r"], c["d"]
    if c.get("percall") is not None:
        r = c["percall"]                  # the object is built with another rate; the call passes r=
    ctor = c.get("ctor", "br")
    if ctor == "bc":
        k = guard(Keccak, b=b, c=b - r, len=d)
    elif ctor == "rc":
        k = guard(Keccak, r=r, c=b - r, len=d)
    else:
        k = guard(Keccak, b=b, r=r, len=d)
    eq((k.b, k.r, k.c), (b, r, b - r), "constructor:b/r/c")
    if not c["nist"]:
        k.duplexing = True
    return k


def call(k, M, L, r=None):
    if r is not None:
        return guard(k, M, r=r) if L is None else guard(k, M, bitlen=L, r=r)
    return guard(k, M) if L is None else guard(k, M, bitlen=L)


def check_sponge(c):
    M, L, d = c["M"], c["L"], c["d"]
    k = make(c)
    got = call(k, M, L, c["r"] if c.get("percall") is not None else None)
    Leff = 8 * len(M) if L is None else L
    exp = R.keccak(c["b"], c["r"], M, Leff, d, c["nist"])
    expect(isinstance(got, bytes), "sponge:type", "bytes", type(got).__name__)
    eq(len(got), (d + 7) // 8, "sponge:output-length")
    if got != exp:
        raise Violation("sponge!=reference:%s%s" % ("per-call-rate," if c.get("percall") is not None else "", sig_class(c)), exp, got)
    if c.get("percall") is not None:
        eq((k.r, k.c), (c["percall"], c["b"] - c["percall"]), "per-call-rate:object-rate-changed")


def sig_class(c):
    r = c["r"]
    Leff = 8 * len(c["M"]) if c["L"] is None else c["L"]
    parts = []
    if r < 8:
        parts.append("r<8")
    elif r % 8:
        parts.append("r%8!=0")
    if Leff % r == r - 1:
        parts.append("L=r-1(mod r)")
    if c["L"] is not None and c["nist"] and (c["L"] + 7) // 8 < len(c["M"]):
        parts.append("nist,extra-bytes")
    return ",".join(parts) or "plain"


def classify_sponge(c):
    b, r, d = c["b"], c["r"], c["d"]
    Leff = 8 * len(c["M"]) if c["L"] is None else c["L"]
    lab = ["b=%d" % b, "nist" if c["nist"] else "native", "r%8==0" if r % 8 == 0 else "r<8" if r < 8 else "r%8!=0",
           "squeezes=%d" % min(3, (d + r - 1) // r), "blocks=%d" % min(3, Leff // r)]
    m = Leff % r
    if m in (0, 1, r - 2, r - 1):
        lab.append("L mod r=%s" % {0: "0", 1: "1", r - 2: "r-2", r - 1: "r-1"}[m])
    if c.get("percall") is not None:
        lab.append("per-call rate")
    if c["L"] is not None:
        lab.append("L%%8=%d" % (c["L"] % 8))
        if (c["L"] + 7) // 8 < len(c["M"]):
            lab.append("extra trailing bytes")
    return tuple(lab)


def rate_strategy(b):
    w = b // 25
    top = min(b - 1, 1536)
    special = sorted(set(x for x in [1, 2, 7, 8, 9, 15, 16, 17, b - 2, b - 1, w, 2 * w, 3 * w, b // 2, 40, 64, 72, 136, 144, 576, 832, 1024, 1088, 1152, 1344, 1536]
                         if 1 <= x <= top))
    mult8 = [x for x in range(8, top + 1, 8)]
    opts = [(3, st.sampled_from(special)), (2, gen.uint(1, top))]
    if mult8:
        opts.append((2, st.sampled_from(mult8)))
    return gen.pick(*opts)


def sponge_strategy(tier):
    maxblk = 3 if tier == "quick" else 6

    def for_b(b):
        def for_r(r):
            Lmod = gen.pick((3, st.sampled_from(sorted(set([0, 1, max(0, r - 2), r - 1])))), (2, gen.uint(0, r - 1)))
            Ls = st.tuples(gen.uint(0, maxblk if r >= 64 else 2 * maxblk), Lmod).map(lambda t: t[0] * r + t[1])
            ds = gen.pick((2, st.sampled_from(sorted(set([1, 8, max(1, r - 1), r, r + 1, 2 * r + 3])))), (1, gen.uint(1, 3 * r)),
                          (1, st.sampled_from([8, 64, 128, 224, 256, 512])))

            def build(L, d, nist, ctor, lmode, content, extra, pc):
                nb = (L + 7) // 8
                M = (content * (nb // len(content) + 1))[:nb]
                c = {"b": b, "r": r, "d": d, "nist": nist, "ctor": ctor}
                if pc is not None:
                    c["percall"] = 1 + pc % min(b - 1, 1536)
                if L == 0:
                    c["M"], c["L"] = b"", None
                elif lmode == 0 and L % 8 == 0:
                    c["M"], c["L"] = M, None
                elif lmode == 2:
                    c["M"], c["L"] = M + extra, L
                else:
                    c["M"], c["L"] = M, L
                return c
            return st.builds(build, Ls, ds, st.booleans(), st.sampled_from(["bc", "rc", "br"]), gen.uint(0, 2),
                             gen.blob(48), gen.blob_of(gen.uint(1, 5)), gen.pick((3, st.none()), (1, gen.uint(0, 1535))))
        return rate_strategy(b).flatmap(for_r)
    return st.sampled_from(WIDTHS).flatmap(for_b)


def sponge_sweep(tier, rnd):
    """small widths: every rate, every L over two rate blocks (b <= 100 quick / <= 200 thorough)"""
    top_b = 50 if tier == "quick" else 200
    for b in WIDTHS:
        if b > top_b:
            continue
        for r in range(1, b):
            for L in range(0, 2 * r + 2):
                nb = (L + 7) // 8
                M = bytes(rnd.randrange(256) for _ in range(nb))
                for nist in (True, False):
                    if L == 0 and not nist:
                        continue
                    yield {"b": b, "r": r, "d": r + 1 if L % 3 else 8, "nist": nist, "ctor": "br",
                           "M": M if L else b"", "L": L if L else None}


# ---------------------------------------------------------------------------
def check_fips(c):
    f, M = c["f"], c["M"]
    if f.startswith("sha3_"):
        n = int(f[5:])
        got = guard(SHA3(n), M)
        exp = hashlib.new(f, M).digest()
    elif f.startswith("shake"):
        fn = SHAKE128 if f == "shake128" else SHAKE256
        got = guard(fn, M, c["d"])
        exp = (hashlib.shake_128 if f == "shake128" else hashlib.shake_256)(M).digest(c["d"] // 8)
    else:                                  # module singletons keccak_224..512: original Keccak (no domain suffix)
        n = int(f[7:])
        obj = {224: keccak_224, 256: keccak_256, 384: keccak_384, 512: keccak_512}[n]
        L = c.get("L")
        got = guard(obj, M) if L is None else guard(obj, M, bitlen=L)
        exp = R.keccak(1600, 1600 - 2 * n, M, 8 * len(M) if L is None else L, n, True)
    expect(isinstance(got, bytes), f + ":type", "bytes", type(got).__name__)
    if got != exp:
        raise Violation("%s!=fips202" % f.split("_")[0], exp, got)


def fips_sweep(tier, rnd):
    rates = {"sha3_224": 144, "sha3_256": 136, "sha3_384": 104, "sha3_512": 72, "shake128": 168, "shake256": 136}
    for f, rate in rates.items():
        top = 2 * rate + 1 if tier == "thorough" else rate + 9
        step = 1
        for n in range(0, top + 1, step):
            if tier == "quick" and not (n <= 9 or n >= rate - 9):
                continue
            M = bytes(rnd.randrange(256) for _ in range(n))
            if f.startswith("shake"):
                for d in (8, 8 * rate, 8 * rate + 8, 8 * (2 * rate + 5)) if n % 7 == 0 or n >= rate - 2 else (256,):
                    yield {"f": f, "M": M, "d": d}
            else:
                yield {"f": f, "M": M}
    for n in (224, 256, 384, 512):
        rate = (1600 - 2 * n) // 8
        for ln in [0, 1, 2, rate - 1, rate, rate + 1]:
            M = bytes(rnd.randrange(256) for _ in range(ln))
            yield {"f": "keccak_%d" % n, "M": M, "L": None}
            if ln:
                yield {"f": "keccak_%d" % n, "M": M, "L": 8 * ln - 3}


def fips_strategy(tier):
    def build(f, M, dk):
        c = {"f": f, "M": M}
        if f.startswith("shake"):
            c["d"] = 8 * dk
        return c
    return st.builds(build, st.sampled_from(["sha3_224", "sha3_256", "sha3_384", "sha3_512", "shake128", "shake256"]),
                     gen.blob_of(gen.pick((2, gen.uint(0, 300)), (1, gen.uint(301, 700)))), gen.pick((2, gen.uint(1, 64)), (1, gen.uint(65, 400))))


# ---------------------------------------------------------------------------
# duplex histories
def check_duplex(c):
    b, r = c["b"], c["r"]
    k = guard(Keccak, b=b, r=r, len=64)
    nist = not c.get("native")
    if not nist:
        k.duplexing = True       # a native-bit-order sponge (as SHA3/SHAKE objects are): its hash calls stay native after duplexing
    D = R.Duplex(b, r)
    for i, (m, L, outlen) in enumerate(c["calls"]):
        if isinstance(outlen, tuple):
            # ... the same with a per-call rate (r=), which the object sets and restores around the call
            r2 = outlen[1]
            got = guard(k, m, bitlen=L, r=r2) if L else guard(k, m[:0], r=r2)
            exp = R.keccak(b, r2, m, L, 64, nist) if L else R.keccak(b, r2, b"", 0, 64, nist)
            if got != exp:
                raise Violation("duplex-history:interleaved-hash-with-rate!=reference", {"call": i, "out": exp}, {"call": i, "out": got})
            continue
        if outlen == "hash":
            # an ordinary one-shot hash on the same object between duplexing calls: it has its own state and bit order
            got = guard(k, m, bitlen=L) if L else guard(k, m[:0])
            exp = R.keccak(b, r, m, L, 64, nist) if L else R.keccak(b, r, b"", 0, 64, nist)
            if got != exp:
                raise Violation("duplex-history:interleaved-hash!=reference", {"call": i, "out": exp}, {"call": i, "out": got})
            continue
        bits = R.msgbits(m, L, False)
        if L > r - 2:
            st_, res = attempt(k.duplex, m, bitlen=L, outlen=outlen) if L else attempt(k.duplex, m, outlen=outlen)
            if st_ == "ok":
                raise Violation("duplex:over-long-input-accepted", "an exception", res)
            return ALLOWED
        if L == 0:
            got = guard(k.duplex, b"", outlen=outlen) if outlen is not None else guard(k.duplex, b"")
        else:
            got = guard(k.duplex, m, bitlen=L, outlen=outlen) if outlen is not None else guard(k.duplex, m, bitlen=L)
        ol = r if outlen is None else outlen
        exp = R.pack(D.duplexing(bits, ol))
        if got != exp:
            raise Violation("duplex!=reference", {"call": i, "out": exp}, {"call": i, "out": got})


def duplex_strategy(tier):
    maxcalls = 4 if tier == "quick" else 10

    def for_b(b):
        def for_r(r):
            def one(L, ol, content):
                nb = (L + 7) // 8
                m = (content * (nb // len(content) + 1))[:nb]
                return (m, L, ol)
            Ls = gen.pick((2, st.sampled_from(sorted(set([0, 1, max(0, r - 3), max(0, r - 2)])))), (3, gen.uint(0, max(0, r - 2))),
                          (1, st.sampled_from([r - 1, r, r + 5])))
            ols = gen.pick((2, st.none()), (4, gen.uint(1, r)), (2, st.sampled_from(sorted(set([1, min(8, r), r])))), (2, st.just("hash")),
                            (2, st.sampled_from([("hash-r", r), ("hash-r", max(3, r - 1)), ("hash-r", min(b - 1, r + 8))])))
            return st.lists(st.builds(one, Ls, ols, gen.blob(32)), min_size=1, max_size=maxcalls).map(
                lambda calls: {"b": b, "r": r, "calls": tuple(calls), "native": len(calls[0][0]) % 2 == 1})
        w = b // 25
        top = min(b - 1, 1536)
        rates = [x for x in sorted(set([3, 8, 9, 16, 24, 40, 64, b - 2, b - 1, b // 2, 1027, 1024, 1088, 1344])) if 3 <= x <= top]
        return gen.pick((2, st.sampled_from(rates)), (1, gen.uint(3, top))).flatmap(for_r)
    return st.sampled_from(WIDTHS).flatmap(for_b)


# ---------------------------------------------------------------------------
# one sponge object hashing several messages
def check_history(c):
    k = make(c)
    sib = None
    if c.get("sib"):
        # a sponge of another width/rate/bit order, built after k and used between its calls
        sc = {"b": {200: 400, 400: 800, 800: 1600, 1600: 200}[c["b"]], "r": 64 if c["r"] != 64 else 136, "d": 72, "nist": not c["nist"]}
        sib = make(sc)
    for i, (M, L) in enumerate(c["msgs"]):
        if sib is not None and i % 2 == 1:
            sm = bytes(range(i, i + 30))
            if call(sib, sm, None) != R.keccak(sc["b"], sc["r"], sm, 8 * len(sm), sc["d"], sc["nist"]):
                raise Violation("sponge:reused-object:sibling-object!=reference", None, None)
        if L is not None and L > 8 * len(M):
            attempt(k, M, bitlen=L)       # over-long bit length: refused or not, only the calls after it are judged
            continue
        got = call(k, M, L)
        Leff = 8 * len(M) if L is None else L
        exp = R.keccak(c["b"], c["r"], M, Leff, c["d"], c["nist"])
        if got != exp:
            raise Violation("sponge:reused-object!=reference", {"call": i, "out": exp}, {"call": i, "out": got})


def history_strategy(tier):
    def build(b, rk, d, nist, msgs):
        top = min(b - 1, 1536)
        r = [x for x in (8, 16, 24, 40, 64, 136, 576, 1088) if x <= top][rk % len([x for x in (8, 16, 24, 40, 64, 136, 576, 1088) if x <= top])]
        out = []
        for M, lm in msgs:
            out.append((M, 8 * len(M) + 3 if lm == 9 else None if lm == 0 or not M else 8 * len(M) - lm % 8))
        if out[-1][1] is not None and out[-1][1] > 8 * len(out[-1][0]):
            out.append((b"after", None))
        return {"b": b, "r": r, "d": d, "nist": nist, "msgs": tuple(out), "sib": len(msgs[0][0]) % 2}
    return st.builds(build, st.sampled_from([200, 400, 800, 1600]), gen.uint(0, 7), st.sampled_from([8, 64, 256, 300]), st.booleans(),
                     st.lists(st.tuples(gen.blob_of(gen.uint(0, 40)), gen.uint(0, 10)), min_size=2, max_size=4))


FACETS = [
    Facet("sponge-small-exhaustive", check_sponge, cases=sponge_sweep, exhaustive=True, distinct=True,
          nontrivial=lambda c: (c["L"] or 8 * len(c["M"])) >= 1 or c["d"] > c["r"], classify=classify_sponge,
          shards={"quick": 16, "thorough": 32},
          rule="widths 25 and 50 (25..200 thorough): EVERY rate 1..b-1, EVERY bit length 0..2r+1, both bit-order modes"),
    Facet("sponge-random", check_sponge, strategy=sponge_strategy, budget={"quick": 2500, "thorough": 100000},
          shards={"quick": 16, "thorough": 32},
          nontrivial=lambda c: (c["L"] or 8 * len(c["M"])) >= 1 or c["d"] > c["r"], classify=classify_sponge,
          rule="all 7 widths; rate boundary-biased on {1,2,7,8,9,b-2,b-1,multiples of 8/of the lane size, standard rates}; L = k*r + {0,1,r-2,r-1,uniform}; "
               "d in {1,8,r-1,r,r+1,2r+3,...}; both modes; 3 constructor keyword combinations; rate given at construction or per call (r=) on an object built with another rate; L absent / exact / prefix of a longer byte string"),
    Facet("fips202-sweep", check_fips, cases=fips_sweep, nontrivial=lambda c: len(c["M"]) >= 1, classify=lambda c: (c["f"],),
          shards={"quick": 16, "thorough": 32},
          rule="SHA3-224/256/384/512, SHAKE128/256 (several output lengths incl. > rate) on every byte length near 0 and across the rate boundary "
               "(every length 0..2*rate+1 thorough) against hashlib; keccak_224..512 singletons against the reference"),
    Facet("fips202-random", check_fips, strategy=fips_strategy, budget={"quick": 400, "thorough": 20000},
          shards={"quick": 16, "thorough": 32}, nontrivial=lambda c: len(c["M"]) >= 1, classify=lambda c: (c["f"],),
          rule="random messages up to 700 bytes, SHAKE output 8..3200 bits"),
    Facet("duplex-histories", check_duplex, strategy=duplex_strategy, budget={"quick": 400, "thorough": 10000},
          shards={"quick": 16, "thorough": 32}, nontrivial=lambda c: len(c["calls"]) >= 2,
          classify=lambda c: ("b=%d" % c["b"], "calls=%d" % len(c["calls"]), "has over-long input" if any(L > c["r"] - 2 and o != "hash" and not isinstance(o, tuple) for _, L, o in c["calls"]) else "all fit",
                              "has interleaved hash" if any(o == "hash" for _, _, o in c["calls"]) else "no plain hash",
                              "has interleaved hash with r=" if any(isinstance(o, tuple) for _, _, o in c["calls"]) else "no hash with r=",
                              "native-order object" if c.get("native") else "NIST-order object"),
          rule="1..4 (10) duplexing calls on one object (input 0..r-2 bits, output 1..r bits) against the reference duplex object after every call; "
               "an input longer than r-2 bits must be refused; ordinary hash calls on the same object (also with a per-call rate r=) are interleaved and must neither disturb nor be disturbed"),
    Facet("reused-object", check_history, strategy=history_strategy, budget={"quick": 300, "thorough": 8000},
          shards={"quick": 16, "thorough": 32}, nontrivial=lambda c: True,
          classify=lambda c: ("b=%d" % c["b"], "has over-long bitlen call" if any(L is not None and L > 8 * len(M) for M, L in c["msgs"]) else "all calls valid",
                              "sibling sponge of another width" if c.get("sib") else "no sibling"),
          rule="2..5 messages hashed one after the other by ONE sponge object; one call in ten passes a bit length beyond the data (not judged, the calls after it are)"),
]
WEIGHT = {"sponge-random": 8, "sponge-small-exhaustive": 6, "fips202-sweep": 5}
