"""C05 - ECB/CBC/CTR/CTS modes follow SP 800-38A and decrypt what they encrypt.
Oracle: ref/modes.py parameterised by the cipher object's OWN single-block enc/dec (isolates the mode logic from C02)
applied to the reference padding of the message; SP 800-38A known answers; round trip through a fresh, equally
configured object."""
from hypothesis import strategies as st
from vlib.core import Facet, Violation, ALLOWED, guard, attempt, eq, expect
from vlib import gen
from ref import modes as RM, padref, aes as raes
from props import _ciphers as CI

from crysp import mode as cm
from crysp import padding as cp
from crysp.aes import AES

RULE = ("Case = (mode, cipher configuration, padding scheme, IV / counter block, message).  Non-trivial = |M| mod blocksize != 0, "
        "or >= 2 blocks, or the counter wraps.")
ASSUMPTIONS = ["the CTS block order is not fixed by the property: only length, IV prefix, whole-block equality with ECB/CBC and the round trip are demanded",
               "zero padding is not invertible: its ciphertext is checked, not its decryption",
               "nopadding with ECB/CBC is only generated with whole blocks; CTS with at least one block",
               "CTR is always given its counter block (bytes or a set-up DefaultCounter)"]
SELFTESTS = [("modes", RM.selftest), ("padref", padref.selftest)]

PADS = {"pkcs7": cp.pkcs7, "x923": cp.X923, "bit": cp.bitpadding, "null": cp.Nullpadding, "nopadding": cp.nopadding}
INVERTIBLE = ("pkcs7", "x923", "bit", "nopadding")


def build_mode(c, cipher):
    m = c["mode"]
    if m == "ECB":
        return cm.ECB(cipher, PADS[c["pad"]]) if c.get("pad") else cm.ECB(cipher)
    if m == "CBC":
        return cm.CBC(cipher, c["iv"], PADS[c["pad"]]) if c.get("pad") else cm.CBC(cipher, c["iv"])
    if m == "CTR":
        if c.get("ctrform") == "object":
            h = len(c["iv"]) // 2
            return cm.CTR(cipher, cm.DefaultCounter(len(c["iv"])).setup(c["iv"][:h], c["iv"][h:]))
        return cm.CTR(cipher, c["iv"])
    if m == "CTS_ECB":
        return cm.CTS_ECB(cipher)
    if m == "CTS_CBC":
        return cm.CTS_CBC(cipher, c["iv"])
    raise AssertionError(m)


def expected_enc(c, E, B):
    m, M = c["mode"], c["M"]
    if m in ("ECB", "CBC"):
        padname = c.get("pad") or "pkcs7"
        P = padref.pad(padname, 8 * B, M)
        return RM.ecb_enc(E, B, P) if m == "ECB" else RM.cbc_enc(E, B, c["iv"], P)
    if m == "CTR":
        h = B // 2
        return RM.ctr(E, B, c["iv"][:h], c["iv"][h:], M)
    return None


def one_op(c, what, data):
    """result of one enc/dec on a FRESH mode object (used as the fresh-object oracle for histories)"""
    cipher = guard(CI.make, c["conf"])
    mo = guard(build_mode, c, cipher)
    return guard(mo.enc if what == "enc" else mo.dec, data)


def check_mode(c):
    conf, m, M = c["conf"], c["mode"], c["M"]
    B = CI.BLOCK[conf["cipher"]]
    cipher = guard(CI.make, conf)
    E = lambda b: guard(cipher.enc, b)
    tag = m + ((":" + c["pad"]) if c.get("pad") else "")
    mo = guard(build_mode, c, cipher)
    C = guard(mo.enc, M)
    expect(isinstance(C, bytes), tag + ":enc:type", "bytes", type(C).__name__)
    exp = expected_enc(c, E, B)
    if c.get("pad") == "null" and len(M) == 0:
        exp = None          # zero padding of the empty message: no block or one zero block (left open, see C09)
    if exp is not None:
        if C != exp:
            raise Violation(tag + ":enc!=sp800-38a", exp, C)
    if m == "CTR":
        eq(len(C), len(M), tag + ":|enc(M)|!=|M|")
    if m == "CTS_ECB":
        eq(len(C), len(M), tag + ":|enc(M)|!=|M|")
        if len(M) % B == 0:
            if C != RM.ecb_enc(E, B, M):
                raise Violation(tag + ":whole-blocks!=ECB", RM.ecb_enc(E, B, M), C)
    if m == "CTS_CBC":
        eq(len(C), len(M) + B, tag + ":|enc(M)|!=|M|+|IV|")
        eq(C[:B], c["iv"], tag + ":ciphertext-does-not-start-with-IV")
        if len(M) % B == 0:
            if C != RM.cbc_enc(E, B, c["iv"], M):
                raise Violation(tag + ":whole-blocks!=CBC", RM.cbc_enc(E, B, c["iv"], M), C)
    # decrypt with a fresh, equally configured object
    if m in ("ECB", "CBC") and (c.get("pad") or "pkcs7") not in INVERTIBLE:
        return
    cipher2 = guard(CI.make, conf)
    mo2 = guard(build_mode, c, cipher2)
    D = guard(mo2.dec, C)
    if D != M:
        raise Violation(tag + ":dec(enc(M))!=M", M, D)


def nontriv(c):
    B = CI.BLOCK[c["conf"]["cipher"]]
    return len(c["M"]) % B != 0 or len(c["M"]) >= 2 * B or wraps(c)


def wraps(c):
    if c["mode"] != "CTR":
        return False
    B = CI.BLOCK[c["conf"]["cipher"]]
    h = B // 2
    cnt = int.from_bytes(c["iv"][h:], "big")
    nblk = (len(c["M"]) + B - 1) // B
    return cnt + nblk > (1 << (8 * h))


def classify(c):
    B = CI.BLOCK[c["conf"]["cipher"]]
    n = len(c["M"])
    lab = [c["mode"], "B=%d" % B, "blocks=%d" % min(3, n // B), "residue=0" if n % B == 0 else "residue!=0"]
    if c.get("pad"):
        lab.append("pad=" + c["pad"])
    if wraps(c):
        lab.append("counter wraps")
    if c.get("ctrform") == "object":
        lab.append("DefaultCounter object")
    return tuple(lab)


def sweep_cases(tier, rnd):
    def rb(n):
        return bytes(rnd.randrange(256) for _ in range(n))
    confs = [{"cipher": "des", "key": rb(8)}, {"cipher": "aes128", "key": rb(16)}]
    if tier == "thorough":
        confs += [{"cipher": "tdea", "form": "s24", "key": rb(24)}, {"cipher": "aes256", "key": rb(32)}, {"cipher": "serpent", "form": "bytes", "key": rb(32)}]
    for conf in confs:
        B = CI.BLOCK[conf["cipher"]]
        for n in range(0, 3 * B + 2):
            M = rb(n)
            for pad in ("pkcs7", "x923", "bit", "null"):
                yield {"mode": "ECB", "conf": conf, "pad": pad, "M": M}
                yield {"mode": "CBC", "conf": conf, "pad": pad, "iv": rb(B), "M": M}
            if n % B == 0:
                yield {"mode": "ECB", "conf": conf, "pad": "nopadding", "M": M}
                yield {"mode": "CBC", "conf": conf, "pad": "nopadding", "iv": rb(B), "M": M}
            yield {"mode": "ECB", "conf": conf, "M": M}                       # default padding
            yield {"mode": "CBC", "conf": conf, "iv": rb(B), "M": M}
            h = B // 2
            for k, cnt in enumerate([rb(h), b"\0" * h, b"\xff" * h, ((1 << (8 * h)) - 2).to_bytes(h, "big")]):
                yield {"mode": "CTR", "conf": conf, "iv": rb(h) + cnt, "M": M, "ctrform": "object" if (n + k) % 2 else "bytes"}
            if n >= B:
                yield {"mode": "CTS_ECB", "conf": conf, "M": M}
                yield {"mode": "CTS_CBC", "conf": conf, "iv": rb(B), "M": M}
    # large blocks: residues {0,1,B/2,B-1} x 0..3 blocks
    for name in ("tf256", "tf512", "tf1024"):
        B = CI.BLOCK[name]
        conf = {"cipher": name, "form": "bytes", "key": rb(B), "tweak": rb(16)}
        for k in range(0, 4):
            for r in (0, 1, B // 2, B - 1):
                M = rb(k * B + r)
                yield {"mode": "ECB", "conf": conf, "pad": "pkcs7" if B < 256 else "bit", "M": M}
                yield {"mode": "CBC", "conf": conf, "pad": "bit", "iv": rb(B), "M": M}
                h = B // 2
                yield {"mode": "CTR", "conf": conf, "iv": rb(h) + ((1 << (8 * h)) - 1 - (k % 2)).to_bytes(h, "big"), "M": M}
                if len(M) >= B:
                    yield {"mode": "CTS_ECB", "conf": conf, "M": M}
                    yield {"mode": "CTS_CBC", "conf": conf, "iv": rb(B), "M": M}


def mode_strategy(tier):
    def for_conf(conf):
        B = CI.BLOCK[conf["cipher"]]
        h = B // 2
        ln = gen.length(B, 3, special=[B // 2])
        cnt = gen.pick((2, gen.blob(h)), (1, st.just(b"\0" * h)),
                       (3, gen.uint(0, 4).map(lambda k: ((1 << (8 * h)) - 1 - k).to_bytes(h, "big"))))
        mode = st.sampled_from(["ECB", "CBC", "CTR", "CTR", "CTS_ECB", "CTS_CBC"])

        def build(m, M, pad, iv, nonce, count, form):
            c = {"mode": m, "conf": conf, "M": M}
            if m in ("ECB", "CBC"):
                if pad == "default":
                    pass
                elif pad == "nopadding":
                    c["pad"] = pad
                    c["M"] = M[:len(M) - len(M) % B]
                else:
                    c["pad"] = pad
            if m in ("CBC", "CTS_CBC"):
                c["iv"] = iv
            if m == "CTR":
                c["iv"] = nonce + count
                c["ctrform"] = form
            if m.startswith("CTS") and len(M) < B:
                c["M"] = (M + iv)[:B] if len(M + iv) >= B else iv
            return c
        return st.builds(build, mode, gen.blob_of(ln), st.sampled_from(["pkcs7", "x923", "bit", "null", "nopadding", "default"]),
                         gen.blob(B), gen.blob(h), cnt, st.sampled_from(["bytes", "object"]))
    return CI.config_strategy().flatmap(for_conf)


# ---------------------------------------------------------------------------
def check_kat(c):
    K = bytes.fromhex(RM.KAT["key"])
    P = bytes.fromhex(RM.KAT["plain"])
    which = c["which"]
    n = c["nblocks"] * 16
    if which == "ecb":
        got = guard(cm.ECB(AES(K), cp.nopadding).enc, P[:n])
        exp = bytes.fromhex(RM.KAT["ecb"])[:n]
    elif which == "cbc":
        iv = bytes.fromhex(RM.KAT["cbc_iv"])
        got = guard(cm.CBC(AES(K), iv, cp.nopadding).enc, P[:n])
        exp = iv + bytes.fromhex(RM.KAT["cbc"])[:n]
    else:
        iv = bytes.fromhex(RM.KAT["ctr_iv"])
        n = max(0, n - c.get("cut", 0))
        got = guard(cm.CTR(AES(K), iv).enc, P[:n])
        exp = bytes.fromhex(RM.KAT["ctr"])[:n]
    if got != exp:
        raise Violation("sp800-38a-kat:%s" % which, exp, got)


def kat_cases(tier, rnd):
    for which in ("ecb", "cbc", "ctr"):
        for nb in range(1, 5):
            yield {"which": which, "nblocks": nb}
    for cut in range(1, 16):
        yield {"which": "ctr", "nblocks": 4, "cut": cut}


# ---------------------------------------------------------------------------
# one mode object used several times: every result equals the reference / a fresh object
def check_history(c):
    conf = c["conf"]
    cipher = guard(CI.make, conf)
    mo = guard(build_mode, c, cipher)
    last_ct = None
    c = dict(c)
    sib = None
    if c.get("sib"):
        # a second mode object of the same kind over a cipher with another key (and another IV), built after mo
        sc = dict(c, conf=CI.sibling(conf), iv=c["iv"][::-1], ops=())
        sib = guard(build_mode, sc, guard(CI.make, sc["conf"]))
    for i, (what, M) in enumerate(c["ops"]):
        if sib is not None and i % 2 == 1:
            sm = (M + c["iv"] * 3)[:CI.BLOCK[conf["cipher"]] * 2]
            if guard(sib.enc, sm) != one_op(dict(sc, M=sm), "enc", sm):
                raise Violation("%s:history:sibling-object:enc-differs-from-fresh-object" % c["mode"], None, None)
        if what == "setup":
            # re-configure the counter of an existing CTR object through the public DefaultCounter.setup(); later
            # operations must behave like a fresh object configured with the new counter block
            if c["mode"] == "CTR":
                B = CI.BLOCK[conf["cipher"]]
                iv = (M * (B // max(1, len(M)) + 1))[:B] if M else bytes(B)
                guard(mo.counter.setup, iv[:B // 2], iv[B // 2:])
                c["iv"] = iv
                last_ct = None
            continue
        if what == "bad-enc":
            # an enc call that cannot be served (unpadded scheme with a partial block; a message shorter than a block for
            # ciphertext stealing): refused or not, it is not judged; the operations after it are
            B_ = CI.BLOCK[conf["cipher"]]
            attempt(mo.enc, (M + b"x" * B_)[:B_ * (len(M) // B_) + 1 + len(M) % (B_ - 1)] if not c["mode"].startswith("CTS") else M[:B_ - 1])
            continue
        if what == "bad-dec":
            # a ciphertext no equally configured object can have produced (truncated by one byte, or shorter than a
            # block): refused or answered, the call is not judged; the operations after it are
            ct = one_op(dict(c, M=M), "enc", M)
            attempt(mo.dec, ct[:-1] if len(M) % 2 else ct[:len(ct) % CI.BLOCK[conf["cipher"]] + 1])
            continue
        if what == "enc":
            got = guard(mo.enc, M)
            exp = one_op(dict(c, M=M), "enc", M)
            if got != exp:
                raise Violation("%s:history:enc-differs-from-fresh-object" % c["mode"], {"op": i, "out": exp}, {"op": i, "out": got})
            last_ct = (got, M)
        elif what == "dec-last":
            if last_ct is not None:
                got = guard(mo.dec, last_ct[0])
                if got != last_ct[1]:
                    raise Violation("%s:history:dec(enc(M))!=M" % c["mode"], {"op": i, "out": last_ct[1]}, {"op": i, "out": got})
        else:
            # decrypt a ciphertext that an equally configured FRESH object produced for another message
            ct = one_op(dict(c, M=M), "enc", M)
            got = guard(mo.dec, ct)
            if got != M:
                raise Violation("%s:history:dec-of-other-ciphertext!=M" % c["mode"], {"op": i, "out": M}, {"op": i, "out": got})


def history_strategy(tier):
    def for_conf(conf):
        B = CI.BLOCK[conf["cipher"]]
        h = B // 2

        def build(m, msgs, iv, kinds):
            c = {"mode": m, "conf": conf, "iv": iv, "M": b"", "sib": iv[1] % 2}
            if m in ("ECB", "CBC"):
                c["pad"] = ["pkcs7", "pkcs7", "x923", "nopadding"][iv[0] % 4]
            ops = []
            for M, k in zip(msgs, kinds):
                if c.get("pad") == "nopadding":
                    M = M[:len(M) - len(M) % B]
                if m.startswith("CTS") and len(M) < B:
                    M = (M + iv + iv)[:B + len(M) % 3]
                ops.append((k, M))
            if m == "CTR":
                # the counter of a live object is re-configured between two encryptions in every CTR history
                ops = [(("setup" if k == "bad-enc" else k), M) for k, M in ops] + [("enc", msgs[0]), ("setup", msgs[-1]), ("enc", msgs[0])]
            c["ops"] = tuple(ops)
            return c
        return st.builds(build, st.sampled_from(["ECB", "CBC", "CTR", "CTS_ECB", "CTS_CBC"]),
                         st.lists(gen.blob_of(gen.length(B, 2)), min_size=2, max_size=4), gen.blob(B),
                         st.lists(st.sampled_from(["enc", "enc", "dec", "dec", "dec-last", "dec-last", "setup", "bad-dec", "bad-enc"]), min_size=4, max_size=4))
    return CI.config_strategy(["des", "aes128", "tdea", "tf256"]).flatmap(for_conf)


FACETS = [
    Facet("sp800-38a-kat", check_kat, cases=kat_cases, exhaustive=True, distinct=True, nontrivial=lambda c: True,
          classify=lambda c: (c["which"],), shards={"quick": 1, "thorough": 1},
          rule="SP 800-38A F.1.1 / F.2.1 / F.5.1 (AES-128) through the crysp modes, 1..4 blocks and every truncation of the last CTR block"),
    Facet("length-sweep", check_mode, cases=sweep_cases, nontrivial=nontriv, classify=classify, shards={"quick": 16, "thorough": 32},
          rule="DES and AES-128 (+3DES, AES-256, Serpent thorough): EVERY length 0..3B+1 x {ECB,CBC} x {pkcs7,X9.23,bit,zero,(no padding: whole blocks),default} "
               "+ CTR with 4 counter halves (random, 0, all-ones, 2^k-2; bytes and DefaultCounter object) + CTS_ECB/CTS_CBC for |M| >= B; "
               "Threefish-256/512/1024: residues {0,1,B/2,B-1} x 0..3 blocks"),
    Facet("random", check_mode, strategy=mode_strategy, budget={"quick": 3000, "thorough": 60000}, shards={"quick": 16, "thorough": 32},
          nontrivial=nontriv, classify=classify,
          rule="all 9 cipher configurations, all modes and paddings, lengths k*B + boundary residue, counter halves near wrap-around"),
    Facet("call-histories", check_history, strategy=history_strategy, budget={"quick": 1200, "thorough": 15000},
          shards={"quick": 16, "thorough": 32}, nontrivial=lambda c: len(c["ops"]) >= 2,
          classify=lambda c: (c["mode"] + (":" + c["pad"] if c.get("pad") else ""), "".join({"enc": "e", "dec": "d", "dec-last": "l", "setup": "s", "bad-dec": "x", "bad-enc": "y"}[k] for k, _ in c["ops"])),
          rule="2..4 operations on ONE mode object: enc (== a fresh object's), dec of the ciphertext just produced, dec of a ciphertext that a fresh object produced for a different message, (CTR) re-configuring the counter with DefaultCounter.setup(), a dec call on a truncated ciphertext and an enc call that cannot be served (partial block without padding, short message for ciphertext stealing) - refused or not, the later operations are judged; ECB/CBC with PKCS#7, X9.23 or no padding"),
]
WEIGHT = {"length-sweep": 8, "random": 4}
