"""C06 - Salsa20, ChaCha, RC4: specified keystream, length-preserving XOR streams.
Oracle: ref/stream.py (Salsa20 spec examples, RFC 6229, ChaCha20 vs OpenSSL when present)."""
import os
from hypothesis import strategies as st
from vlib.core import Facet, Violation, ALLOWED, guard, attempt, eq, expect
from vlib import gen
from ref import stream as R

from crysp.bits import Bits, pack
from crysp.salsa20 import Salsa20
from crysp.chacha import Chacha
from crysp.rc4 import RC4
from crysp import salsa20 as csalsa

RULE = ("Case = (cipher, key, nonce, rounds, message).  Ciphertext == message XOR reference keystream, same length; dec inverts; "
        "prefix law; keystream blocks; RC4 as one continuous stream over split messages.  Non-trivial = non-empty message and "
        "(non-zero nonce or |M| % 64 != 0 or > 1 block or split).")
ASSUMPTIONS = ["keys and nonces are passed as Bits(bytes, bitorder=1) (little-endian words, the convention of tests/test_salsa20.py and test_chacha.py)",
               "ChaCha is the original variant: 64-bit block counter (words 12,13), 64-bit nonce (words 14,15)",
               "block counters >= 2^32 are reached through the BDCHT_CRYSP_VERIF hook (attribute _verif_block0)"]
SELFTESTS = [("stream", R.selftest)]


def make(c):
    K = Bits(c["key"], bitorder=1)
    if c["cipher"] == "salsa20":
        return guard(Salsa20, K, c["rounds"])
    return guard(Chacha, K, c["rounds"])


def nonce_bits(c):
    return Bits(c["nonce"], bitorder=1)


def check_stream(c):
    kind, M = c["cipher"], c["M"]
    obj = make(c)
    v = nonce_bits(c)
    ks = R.keystream(kind, c["key"], c["nonce"], c["rounds"], len(M))
    exp = bytes(a ^ b for a, b in zip(M, ks))
    got = guard(obj.enc, v, M)
    expect(isinstance(got, bytes), kind + ":enc:type", "bytes", type(got).__name__)
    eq(len(got), len(M), kind + ":|enc(M)|!=|M|")
    if got != exp:
        raise Violation(kind + ":enc!=M^keystream", exp, got)
    back = guard(obj.dec, v, got)
    if back != M:
        raise Violation(kind + ":dec(enc(M))!=M", M, back)
    k = c.get("prefix")
    if k is not None and k <= len(M):
        p = guard(make(c).enc, v, M[:k])
        if p != exp[:k]:
            raise Violation(kind + ":enc(prefix)!=prefix(enc)", exp[:k], p)


def check_keystream(c):
    kind = c["cipher"]
    obj = make(c)
    v = nonce_bits(c)
    start = c.get("start", 0)
    if start:
        expect(csalsa._VERIF, "hook-disabled", True, False)
        obj._verif_block0 = start
    g = guard(obj.keystream, v)
    for i in range(c["nblocks"]):
        blk = guard(next, g)
        got = b"".join(guard(pack, w) for w in blk)
        exp = (R.salsa_block if kind == "salsa20" else R.chacha_block)(c["key"], c["nonce"], start + i, c["rounds"])
        if got != exp:
            raise Violation(kind + ":keystream-block!=spec" + (":counter>=2^32" if start + i >= (1 << 32) else ""),
                            {"block": start + i, "ks": exp}, {"block": start + i, "ks": got})


def check_core(c):
    X = c["X"]
    got = guard(Salsa20().hash, X)
    exp = R.salsa_hash(X)
    if got != exp:
        raise Violation("salsa20.hash!=spec", exp, got)


def check_object_history(c):
    """ONE Salsa20/ChaCha object used for several messages, nonces, abandoned keystream generators and (Salsa20)
    core-hash calls: every answer is the specified one, whatever the object did before"""
    kind = c["cipher"]
    K = Bits(c["key"], bitorder=1)            # ONE key vector, shared by this object and by a second one built at the end
    kval = (K.ival, K.size)
    obj = guard(Salsa20 if kind == "salsa20" else Chacha, K, c["rounds"])
    tag = kind + ":object-history"
    sib = None
    if c.get("sib"):
        # a second cipher object with another key (same or other class), built AFTER the first and used between its calls
        skind = kind if c["sib"] == 1 else ("chacha" if kind == "salsa20" else "salsa20")
        skey = bytes(255 - x for x in c["key"][::-1])
        sib = guard(Salsa20 if skind == "salsa20" else Chacha, Bits(skey, bitorder=1), c["rounds"])
    for i, op in enumerate(c["ops"] + (("enc2", c["nonce"], bytes(range(100))),)):
        if sib is not None and i % 2 == 1:
            sm = bytes(range(70))
            got = guard(sib.enc, Bits(c["nonce"], bitorder=1), sm)
            exp = bytes(a ^ b for a, b in zip(sm, R.keystream(skind, skey, c["nonce"], c["rounds"], len(sm))))
            if got != exp:
                raise Violation(tag + ":sibling-object:enc!=M^keystream", {"call": i, "out": exp}, {"call": i, "out": got})
        if op[0] in ("enc", "dec", "enc2"):
            nonce, M = op[1], op[2]
            ks = R.keystream(kind, c["key"], nonce, c["rounds"], len(M))
            exp = bytes(a ^ b for a, b in zip(M, ks))
            v = Bits(nonce, bitorder=1)
            vval = (v.ival, v.size)
            if op[0] == "enc2":
                got = guard(guard(Salsa20 if kind == "salsa20" else Chacha, K, c["rounds"]).enc, v, M)
            else:
                got = guard(getattr(obj, op[0]), v, M)
            if got != exp:
                raise Violation("%s:%s!=M^keystream" % (tag, op[0].replace("enc2", "second-object-on-the-same-key-vector:enc")),
                                {"call": i, "out": exp}, {"call": i, "out": got})
            expect((v.ival, v.size) == vval, tag + ":nonce-vector-changed", vval, (v.ival, v.size))
            expect((K.ival, K.size) == kval, tag + ":key-vector-changed", kval, (K.ival, K.size))
        elif op[0] == "ks":
            g = guard(obj.keystream, Bits(op[1], bitorder=1))
            for j in range(op[2]):
                got = b"".join(guard(pack, w) for w in guard(next, g))
                exp = (R.salsa_block if kind == "salsa20" else R.chacha_block)(c["key"], op[1], j, c["rounds"])
                if got != exp:
                    raise Violation(tag + ":keystream-block!=spec", {"call": i, "block": j, "ks": exp}, {"call": i, "block": j, "ks": got})
        elif op[0] == "hash":
            if kind != "salsa20" or c["rounds"] != 20:
                attempt(obj.hash, op[1])     # only the 20-round Salsa20 core is specified: elsewhere the call merely disturbs
                continue
            got = guard(obj.hash, op[1])
            exp = R.salsa_hash(op[1])
            if got != exp:
                raise Violation(tag + ":hash!=spec", {"call": i, "out": exp}, {"call": i, "out": got})
        else:
            raise AssertionError(op[0])


def object_history_strategy(tier):
    nonce = gen.pick((3, gen.blob(8)), (1, st.just(bytes(8))))
    msg = gen.blob_of(gen.pick((2, gen.uint(0, 70)), (1, st.sampled_from([0, 63, 64, 65, 128, 129])), (1, gen.uint(71, 200))))
    op = gen.pick((3, st.tuples(st.just("enc"), nonce, msg)), (2, st.tuples(st.just("dec"), nonce, msg)),
                  (1, st.tuples(st.just("ks"), nonce, gen.uint(1, 3))), (2, st.tuples(st.just("hash"), gen.blob(64))))
    def build(conf, ops, force20, sib):
        conf = dict(conf, sib=sib)
        if force20 or (conf["cipher"] == "salsa20" and any(o[0] == "hash" for o in ops)):
            conf = dict(conf, rounds=20)
        if not ops[-1][0] in ("enc", "dec"):
            ops = ops + [("enc", conf["nonce"], bytes(range(70)))]
        return dict(conf, ops=tuple(ops))
    return st.builds(build, conf_strategy(tier), st.lists(op, min_size=2, max_size=5), st.booleans(), st.sampled_from([0, 1, 1, 2]))


def conf_strategy(tier):
    keys = gen.pick((3, gen.blob(32)), (2, gen.blob(16)))
    nonce = gen.pick((3, gen.blob(8)), (1, st.just(bytes(8))))
    rounds = gen.pick((2, st.sampled_from([8, 12, 20])), (1, st.sampled_from([2, 4, 6, 10, 14, 16, 18])))
    return st.builds(lambda ci, k, n, r: {"cipher": ci, "key": k, "nonce": n, "rounds": r},
                     st.sampled_from(["salsa20", "chacha"]), keys, nonce, rounds)


def stream_strategy(tier):
    maxblk = 3 if tier == "quick" else 12
    ln = gen.pick((1, st.sampled_from([0, 1, 63, 64, 65, 127, 128, 129])), (2, gen.uint(0, 130)), (1, gen.uint(131, 64 * maxblk)))
    return st.tuples(conf_strategy(tier), gen.blob_of(ln), gen.pick((1, st.none()), (1, gen.uint(0, 200)))).map(
        lambda t: dict(t[0], M=t[1], prefix=None if t[2] is None else min(t[2], len(t[1]))))


def stream_sweep(tier, rnd):
    """every |M| in 0..130 for a few configurations (cheap rounds) - the length classes mod 64"""
    def rb(n):
        return bytes(rnd.randrange(256) for _ in range(n))
    confs = [("salsa20", 32, 20), ("salsa20", 16, 8), ("chacha", 32, 8), ("chacha", 16, 20)]
    for kind, kl, rounds in confs:
        key, nonce = rb(kl), rb(8)
        step = 1 if tier == "thorough" else 1
        for n in range(0, 131, step):
            if tier == "quick" and 3 < n < 61 and n % 7:
                continue
            yield {"cipher": kind, "key": key, "nonce": nonce, "rounds": rounds, "M": rb(n), "prefix": n // 2 if n % 4 == 0 else None}


def nontriv_stream(c):
    M = c["M"]
    return len(M) > 0 and (any(c["nonce"]) or len(M) % 64 != 0 or len(M) > 64)


def classify_stream(c):
    n = len(c["M"])
    return (c["cipher"], "key=%d" % (8 * len(c["key"])), "rounds=%d" % c["rounds"] if c["rounds"] in (8, 12, 20) else "rounds=other",
            "empty" if n == 0 else "|M|%64==0" if n % 64 == 0 else "|M|%64!=0", "blocks=%d" % min(3, n // 64),
            "nonce=0" if not any(c["nonce"]) else "nonce!=0")


def keystream_strategy(tier):
    starts = gen.pick((2, st.just(0)), (4, st.sampled_from([(1 << 32) - 2, (1 << 32) - 1, (1 << 32), (1 << 32) + 1])),
                      (2, gen.nbits(64).map(lambda v: v % ((1 << 64) - 8))), (1, st.sampled_from([(1 << 33) - 1, (1 << 48) - 1, (1 << 63) - 2])))
    return st.tuples(conf_strategy(tier), starts, gen.uint(1, 4)).map(lambda t: dict(t[0], start=t[1], nblocks=t[2]))


def classify_ks(c):
    s, e = c["start"], c["start"] + c["nblocks"] - 1
    return (c["cipher"], "start=0" if s == 0 else "crosses 2^32" if s < (1 << 32) <= e else "counter>=2^32" if s >= (1 << 32) else "counter<2^32")


def core_strategy(tier):
    return gen.blob(64).map(lambda x: {"X": x})


# ---------------------------------------------------------------------------
# RC4: one continuous stream
def check_rc4(c):
    key = c["key"]
    if not 1 <= len(key) <= 256:
        st_, r = attempt(lambda: RC4(key).enc(b"abc"))
        if st_ == "ok":
            raise Violation("rc4:undefined-key-length-accepted", "an exception", r)
        return ALLOWED
    obj = guard(RC4, key)
    total = sum(len(x) for _, x in c["ops"])
    ks = R.rc4_keystream(key, total)
    pos = 0
    for i, (op, data) in enumerate(c["ops"]):
        seg = ks[pos:pos + len(data)]
        if op == "enc":
            got = guard(obj.enc, data)
            exp = bytes(a ^ b for a, b in zip(data, seg))
        elif op == "dec":
            got = guard(obj.dec, data)
            exp = bytes(a ^ b for a, b in zip(data, seg))
        else:
            got = bytes(guard(obj.keystream, len(data)).ival)
            exp = seg
        expect(len(got) == len(data), "rc4:%s:length" % op, len(data), len(got))
        if got != exp:
            raise Violation("rc4:%s!=spec-stream" % op, {"op": i, "out": exp}, {"op": i, "out": got})
        pos += len(data)
    # further objects for the same key (each one a fresh stream from position 0)
    for k in range(c.get("objects", 0)):
        o = guard(RC4, key)
        got = bytes(guard(o.keystream, min(total, 40) + 1).ival)
        if got != R.rc4_keystream(key, min(total, 40) + 1):
            raise Violation("rc4:later-object-for-same-key!=spec-stream", {"object": k + 2}, {"object": k + 2, "ks": got})
    # one-shot over the concatenation with a fresh object gives the same bytes
    if c.get("oneshot"):
        whole = b"".join(d for _, d in c["ops"])
        got = guard(RC4(key).enc, whole)
        if got != bytes(a ^ b for a, b in zip(whole, ks)):
            raise Violation("rc4:one-shot!=spec-stream", None, got)
        back = guard(RC4(key).dec, got)
        if back != whole:
            raise Violation("rc4:dec(enc(M))!=M", whole, back)


def rc4_strategy(tier):
    maxops = 6 if tier == "quick" else 12
    kl = gen.pick((3, st.sampled_from([1, 2, 5, 16, 255, 256])), (2, gen.uint(1, 256)), (1, st.sampled_from([0, 257, 300])))
    piece = gen.blob_of(gen.pick((1, st.just(0)), (3, gen.uint(1, 20)), (1, gen.uint(21, 300))))
    op = st.tuples(st.sampled_from(["enc", "enc", "dec", "ks"]), piece)
    return st.builds(lambda k, ops, o, n: {"key": k, "ops": tuple(ops), "oneshot": o, "objects": n}, gen.blob_of(kl),
                     st.lists(op, min_size=1, max_size=maxops), st.booleans(), gen.uint(0, 3))


FACETS = [
    Facet("stream-length-sweep", check_stream, cases=stream_sweep, nontrivial=nontriv_stream, classify=classify_stream,
          shards={"quick": 16, "thorough": 32},
          rule="Salsa20/20 (256-bit key), Salsa20/8 (128), ChaCha8 (256), ChaCha20 (128): message lengths 0..130 (all near 0, 64, 128; every 7th "
               "elsewhere in the quick tier, all in thorough), prefix law on every 4th"),
    Facet("stream-random", check_stream, strategy=stream_strategy, budget={"quick": 1200, "thorough": 20000},
          shards={"quick": 16, "thorough": 32}, nontrivial=nontriv_stream, classify=classify_stream,
          rule="both ciphers, 128/256-bit keys (random/constant/single-bit), nonce incl. zero, rounds 2..20 even, |M| up to 3 (12) blocks"),
    Facet("keystream-blocks", check_keystream, strategy=keystream_strategy, budget={"quick": 600, "thorough": 10000},
          shards={"quick": 16, "thorough": 32}, nontrivial=lambda c: True, classify=classify_ks,
          rule="1..4 keystream blocks starting at block 0, at 2^32-2..2^32+1 (carry from the low to the high counter word, via the guarded hook) "
               "and at uniformly large indices"),
    Facet("object-histories", check_object_history, strategy=object_history_strategy, budget={"quick": 500, "thorough": 10000},
          nontrivial=lambda c: len(c["ops"]) >= 2,
          classify=lambda c: (c["cipher"], "has hash" if any(o[0] == "hash" for o in c["ops"]) and c["cipher"] == "salsa20" and c["rounds"] == 20 else "no hash",
                              "has abandoned keystream" if any(o[0] == "ks" for o in c["ops"]) else "no abandoned keystream",
                              ["no sibling object", "sibling of the same class", "sibling of the other class"][c.get("sib", 0)]),
          rule="ONE Salsa20/ChaCha object: 2..6 calls mixing enc/dec under different nonces and lengths, partly consumed keystream "
               "generators and (Salsa20/20) core-hash calls; in 3 of 4 cases a sibling object with another key (same or other class) is built "
               "after it and used between its calls; a last object is built on the same key vector; every output compared with the specification"),
    Facet("salsa-core", check_core, strategy=core_strategy, budget={"quick": 300, "thorough": 10000},
          shards={"quick": 8, "thorough": 16}, nontrivial=lambda c: any(c["X"]), classify=lambda c: (),
          rule="Salsa20().hash(X) on random / constant / single-bit 64-byte inputs"),
    Facet("rc4-stream-histories", check_rc4, strategy=rc4_strategy, budget={"quick": 1500, "thorough": 40000},
          shards={"quick": 16, "thorough": 32}, nontrivial=lambda c: len(c["ops"]) >= 2 and 1 <= len(c["key"]) <= 256,
          classify=lambda c: ("keylen=%s" % ("1" if len(c["key"]) == 1 else "256" if len(c["key"]) == 256 else "invalid" if not 1 <= len(c["key"]) <= 256 else "2..255"),
                              "ops=%d" % min(6, len(c["ops"])), "has empty piece" if any(not d for _, d in c["ops"]) else "no empty piece"),
          rule="key 1..256 bytes (0, 257, 300 must be refused); 1..6 (12) operations enc/dec/keystream with pieces of 0..300 bytes on ONE object "
               "against one reference stream position; one-shot over the concatenation with a fresh object"),
]
WEIGHT = {"stream-length-sweep": 8, "stream-random": 6, "keystream-blocks": 5}
