"""C07 - Bits: construction and conversions are faithful under every bit order.
Oracle: ref/bitsmodel.py, the (value,size) model written from the docstrings."""
import operator, binascii
from hypothesis import strategies as st
from vlib.core import Facet, Violation, guard, attempt, eq, expect
from vlib import gen
from ref import bitsmodel as M

from crysp.bits import Bits, pack, unpack, reverse_byte

RULE = ("Every case builds the vector through each constructor and compares every conversion with the "
        "(value,size) model.  Non-trivial = size >= 2 and value not in {0, all-ones} (byte strings: "
        "length >= 1 and not constant 00/ff).")
ASSUMPTIONS = ["the documented semantics of Bits (class and load docstrings) are the specification",
               "negative integers and non-0/1 list items are outside the property's domain"]
SELFTESTS = [("bitsmodel", M.selftest)]


def is_vec(b, v, n, sig):
    expect(type(b) is Bits, sig + ":type", "Bits", type(b).__name__)
    if b.ival != v or b.size != n or b.mask != (1 << n) - 1:
        raise Violation(sig + ":wrong-vector", {"ival": v, "size": n, "mask": (1 << n) - 1},
                        {"ival": b.ival, "size": b.size, "mask": b.mask})


def check_value(c):
    n, x = c["n"], c["x"]
    bl = M.bitlist(x, n)
    b = guard(Bits, x, n)
    is_vec(b, x, n, "Bits(int,size)")
    is_vec(guard(Bits, x), x, x.bit_length(), "Bits(int)")
    is_vec(guard(Bits, x, size=n + 3), x, n + 3, "Bits(int,size>bitlen)")
    if n >= 1:
        is_vec(guard(Bits, x, size=n - 1), x & ((1 << (n - 1)) - 1), n - 1, "Bits(int,size<bitlen)")
    is_vec(guard(Bits, list(bl)), x, n, "Bits(list)")
    bc = guard(Bits, b)
    is_vec(bc, x, n, "Bits(Bits)")
    is_vec(guard(Bits, b, n + 2), x, n + 2, "Bits(Bits,size)")
    for m in sorted({0, n // 2, max(n - 1, 0)}):
        is_vec(guard(Bits, b, m), x & ((1 << m) - 1), m, "Bits(Bits,size<len)")
        is_vec(guard(Bits, b, size=m), x & ((1 << m) - 1), m, "Bits(Bits,size<len)")
    is_vec(b, x, n, "Bits(Bits,size):source-changed")
    # conversions out
    eq(guard(b.int), x, "int()")
    eq(guard(int, b), x, "__int__")
    eq(guard(operator.index, b), x, "__index__")
    eq(guard(len, b), n, "len")
    if n >= 1:
        eq(guard(b.int, -1), M.signed(x, n), "int(-1)")
    for i in range(n):
        eq(guard(b.bit, i), bl[i], "bit(i)")
        eq(guard(b.bit, i - n), bl[i], "bit(-i)")
    eq(guard(list, b), bl, "iter")
    eq(guard(b.bitlist), bl, "bitlist()")
    eq(guard(b.bitlist, 1), bl, "bitlist(1)")
    eq(guard(b.bitlist, -1), bl[::-1], "bitlist(-1)")
    s = guard(str, b)
    eq(s, M.to_str(x, n), "str")
    eq(guard(b.todots), "|" + M.to_str(x, n).replace("0", " ").replace("1", ".") + "|", "todots")
    by = M.to_bytes(x, n)
    eq(guard(b.bytes), by, "bytes()")
    eq(guard(bytes, b), by, "__bytes__")
    eq(guard(b.hex), binascii.hexlify(by), "hex()")
    le = M.pack_le(x, n)
    eq(guard(pack, b), le, "pack")
    eq(guard(pack, b, "<L"), le, "pack('<L')")
    eq(guard(pack, b, ">L"), le[::-1], "pack('>L')")
    is_vec(b, x, n, "conversion-changed-vector")
    # round trips
    is_vec(guard(Bits, guard(b.bytes), size=n), x, n, "roundtrip:bytes")
    is_vec(guard(Bits, guard(b.bitlist)), x, n, "roundtrip:bitlist")
    is_vec(guard(Bits, [int(ch) for ch in s]), x, n, "roundtrip:str")
    for fmt in ("<L", ">L"):
        v, sz = guard(unpack, guard(pack, b, fmt), fmt == ">L")
        r = guard(Bits, v, sz)
        is_vec(r, x, 8 * ((n + 7) // 8), "roundtrip:pack/unpack" + fmt)
        r.size = n
        is_vec(r, x, n, "roundtrip:pack/unpack" + fmt)


def small_cases(tier, rnd):
    top = 13 if tier == "quick" else 16
    for n in range(top + 1):
        for x in range(1 << n):
            yield {"n": n, "x": x}


def wide_strategy(tier):
    widths = gen.pick((2, st.sampled_from([17, 31, 32, 33, 63, 64, 65, 127, 128, 129, 255, 256, 257,
                                           511, 512, 1023, 1024, 1025, 2047, 2048])),
                      (1, gen.uint(17, 300)), (1, gen.uint(301, 2048)))
    return widths.flatmap(lambda n: gen.nbits(n).map(lambda x: {"n": n, "x": x}))


def nontriv_value(c):
    return c["n"] >= 2 and c["x"] not in (0, (1 << c["n"]) - 1)


# ---------------------------------------------------------------------------
def orders_for(n):
    o = [-1, 1, 0]
    o += [k for k in range(2, n + 1) if n % k == 0]
    return o


def check_load(c):
    s, order, size = c["s"], c["order"], c["size"]
    v, n = M.load(s, order)
    if size is None:
        b = guard(Bits, s, None, order)
    else:
        b = guard(Bits, s, size, order)
        v, n = M.resize(v, n, size)
    is_vec(b, v, n, "Bits(bytes,bitorder=%s)" % ("k" if order > 1 else order))
    if c.get("kw"):
        b2 = guard(lambda: Bits(s, bitorder=order) if size is None else Bits(s, size=size, bitorder=order))
        is_vec(b2, v, n, "Bits(bytes,bitorder=%s,kw)" % ("k" if order > 1 else order))
    if size is None:
        b3 = Bits()
        guard(b3.load, s, order)
        is_vec(b3, v, n, "load(bitorder=%s)" % ("k" if order > 1 else order))
        if order == -1:
            eq(guard(b.bytes), s, "roundtrip:bytes->Bits->bytes")
            b4 = guard(Bits, s)
            is_vec(b4, v, n, "Bits(bytes) default order")
        if order == 1:
            eq(guard(pack, b), s, "roundtrip:bytes->Bits(le)->pack")
        if order == 0:
            eq(guard(pack, b, ">L"), s, "roundtrip:bytes->Bits(be)->pack('>L')")


def load_strategy(tier):
    def build(s, oi, smode, delta, kw):
        o = orders_for(len(s))
        order = o[oi % len(o)]
        n = 8 * len(s)
        size = {0: None, 1: None, 2: max(0, n - delta), 3: n + delta, 4: delta}[smode]
        return {"s": s, "order": order, "size": size, "kw": kw}
    lens = gen.pick((3, gen.uint(0, 8)), (3, st.sampled_from([12, 16, 24, 32, 40, 36, 30])), (2, gen.uint(9, 40)))
    return st.builds(build, gen.blob_of(lens), gen.uint(0, 50), gen.uint(0, 4), gen.uint(0, 11), st.booleans())


def load_exhaustive(tier, rnd):
    top = 1 if tier == "quick" else 2
    for ln in range(top + 1):
        for v in range(256 ** ln):
            s = v.to_bytes(ln, "big")
            for order in orders_for(ln):
                for size in (None, 1, max(0, 8 * ln - 3), 8 * ln + 3):
                    yield {"s": s, "order": order, "size": size, "kw": False}


def nontriv_load(c):
    s = c["s"]
    return len(s) >= 1 and s not in (b"\x00" * len(s), b"\xff" * len(s))


# ---------------------------------------------------------------------------
def check_unpack(c):
    s, big = c["s"], c["bigend"]
    exp = (int.from_bytes(s, "big" if big else "little"), 8 * len(s))
    got = guard(unpack, s, big)
    eq(tuple(got), exp, "unpack(bigend=%s)" % big)
    if not big:
        eq(tuple(guard(unpack, s)), exp, "unpack()")
    b = guard(Bits, exp[0], exp[1])
    eq(guard(pack, b, ">L" if big else "<L"), s, "pack!=original-bytes")


def unpack_cases(tier, rnd):
    top = 40 if tier == "quick" else 130
    for ln in range(top + 1):
        variants = [bytes(rnd.randrange(256) for _ in range(ln)) for _ in range(3)]
        variants += [b"\xff" * ln, b"\x00" * ln, bytes((i + 1) & 255 for i in range(ln)),
                     b"\x80" + b"\x00" * (ln - 1) if ln else b"", b"\x00" * (ln - 1) + b"\x01" if ln else b""]
        for s in variants:
            for big in (False, True):
                yield {"s": s, "bigend": big}


def unpack_strategy(tier):
    return st.builds(lambda s, b: {"s": s, "bigend": b},
                     gen.blob_of(gen.pick((3, gen.uint(0, 64)), (1, gen.uint(65, 400)))), st.booleans())


def check_rev(c):
    eq(guard(reverse_byte, c), M.rev8(c), "reverse_byte")


FACETS = [
    Facet("small-exhaustive", check_value, cases=small_cases, exhaustive=True, distinct=True,
          nontrivial=nontriv_value, classify=lambda c: ("n=%d" % c["n"],),
          shards={"quick": 8, "thorough": 16},
          rule="every size 0..13 (0..16 thorough) and every value: all constructors, all conversions, all round trips"),
    Facet("wide-sampled", check_value, strategy=wide_strategy, budget={"quick": 1500, "thorough": 12000},
          nontrivial=nontriv_value,
          classify=lambda c: ("n%8==0" if c["n"] % 8 == 0 else "n%8!=0", "n>256" if c["n"] > 256 else "n<=256"),
          rule="sizes 17..2048 biased to 2^k-1, 2^k, 2^k+1; values uniform / special (2^k, 2^k +-1, masks)"),
    Facet("bytes-load-exhaustive", check_load, cases=load_exhaustive, exhaustive=True, distinct=True,
          nontrivial=nontriv_load, classify=lambda c: ("order=%s" % ("k" if c["order"] > 1 else c["order"]),),
          shards={"quick": 2, "thorough": 16},
          rule="every byte string of length <= 1 (<= 2 thorough) x every admissible bit order x size in {None,1,8|s|-3,8|s|+3}"),
    Facet("bytes-load", check_load, strategy=load_strategy, budget={"quick": 12000, "thorough": 120000},
          nontrivial=nontriv_load,
          classify=lambda c: ("order=%s" % ("k" if c["order"] > 1 else c["order"]),
                              "size=None" if c["size"] is None else "size<8|s|" if c["size"] < 8 * len(c["s"]) else "size>=8|s|",
                              "empty" if not c["s"] else "len>8" if len(c["s"]) > 8 else "len<=8"),
          rule="byte strings 0..40 B, bit order uniformly from {-1,+1,0} + every divisor k of |s|, size None/smaller/larger"),
    Facet("unpack-all-lengths", check_unpack, cases=unpack_cases, distinct=False,
          nontrivial=nontriv_load, exhaustive=False,
          classify=lambda c: ("bigend" if c["bigend"] else "littleend", "len%8==0" if len(c["s"]) % 8 == 0 else "len%8!=0"),
          shards={"quick": 2, "thorough": 4},
          rule="every byte count 0..40 (0..130 thorough; every Q/L/H/B decomposition) x 8 contents x both endians: unpack == int.from_bytes and pack inverts it"),
    Facet("unpack-random", check_unpack, strategy=unpack_strategy, budget={"quick": 1500, "thorough": 30000},
          nontrivial=nontriv_load, classify=lambda c: ("bigend" if c["bigend"] else "littleend",),
          rule="random byte strings up to 400 B"),
    Facet("reverse-byte", check_rev, cases=lambda tier, rnd: iter(range(256)), exhaustive=True, distinct=True,
          nontrivial=lambda c: c not in (0, 255), shards={"quick": 1, "thorough": 1},
          rule="all 256 bytes"),
]
WEIGHT = {"small-exhaustive": 5, "bytes-load": 3, "bytes-load-exhaustive": 4, "wide-sampled": 3}
