"""C08 - Bits operators: fixed-width modular algebra touching only addressed bits.
Oracle: the (value,size) model of ref/bitsmodel.py."""
import operator, itertools
from hypothesis import strategies as st
from vlib.core import Facet, Violation, ALLOWED, guard, attempt, eq, expect
from vlib import gen
from ref import bitsmodel as M

from crysp.bits import Bits
from crysp.utils.operators import rol, ror, concat

RULE = ("Operands are (value,size) pairs; results are compared with the model as (ival,size,mask), operands are "
        "snapshotted and re-checked after the operation and after mutating the result.  Non-trivial = both operands "
        "non-zero (binary), operand non-zero (unary), or an index expression selecting >= 1 bit.")
ASSUMPTIONS = ["an int operand counts with its bit length (Bits(int) semantics)",
               "int - Bits is only generated with ints that fit the vector (the property does not define the width otherwise)",
               "writes use values that fit the selection; index lists for writes have no repeats and no negative entries",
               "sign extension of the empty vector is not generated"]
SELFTESTS = [("bitsmodel", M.selftest)]

INPLACE = {"+": operator.iadd, "-": operator.isub, "&": operator.iand, "|": operator.ior, "^": operator.ixor}
BIN = {"+": operator.add, "-": operator.sub, "&": operator.and_, "|": operator.or_, "^": operator.xor}


def is_vec(b, pair, sig):
    v, n = pair
    expect(type(b) is Bits, sig + ":type", "Bits", type(b).__name__)
    if b.ival != v or b.size != n or b.mask != (1 << n) - 1:
        raise Violation(sig, {"ival": v, "size": n, "mask": (1 << n) - 1},
                        {"ival": b.ival, "size": b.size, "mask": b.mask})


def scribble(r):
    """mutate a result object in every way the class offers; aliases of operands must not notice"""
    if isinstance(r, Bits):
        r.size = r.size + 2
        r[0] = 1 - r.bit(0)
        r[0:2] = 3
        r.ival ^= r.mask


def check_op(c):
    op = c["op"]
    x, m = c["a"]
    A = guard(Bits, x, m)
    a = (x, m)
    if op in BIN:
        if "bint" in c:
            y = c["bint"]
            B, b = y, y
        else:
            y, n = c["b"]
            B, b = guard(Bits, y, n), (y, n)
        if c.get("rev"):
            r = guard(BIN[op], B, A)
            exp = M.binop(op, b, a)
            tag = "int%sBits" % op if "bint" in c else "Bits%sBits" % op
        else:
            r = guard(BIN[op], A, B)
            exp = M.binop(op, a, b)
            tag = "Bits%sint" % op if "bint" in c else "Bits%sBits" % op
        is_vec(r, exp, tag)
        expect(r is not A and r is not B, tag + ":result-aliases-operand")
        scribble(r)
        is_vec(A, a, tag + ":operand-changed")
        if isinstance(B, Bits):
            is_vec(B, b, tag + ":operand-changed")
        if not c.get("rev"):
            # the augmented form (x op= y) is the same operator: same value, right operand untouched
            X = guard(Bits, x, m)
            r = guard(INPLACE[op], X, B)
            is_vec(r, exp, tag.replace(op, op + "=", 1))
            if isinstance(B, Bits):
                is_vec(B, b, tag.replace(op, op + "=", 1) + ":right-operand-changed")
        return
    if op in ("neg", "inv"):
        f = operator.neg if op == "neg" else operator.invert
        r = guard(f, A)
        is_vec(r, M.neg(a) if op == "neg" else M.inv(a), op)
        if op == "neg":
            s = guard(operator.add, A, r)
            is_vec(s, (0, m), "a+(-a)!=0")
        else:
            is_vec(guard(operator.invert, r), a, "~~a!=a")
        scribble(r)
        is_vec(A, a, op + ":operand-changed")
        return
    if op in ("shl", "shr", "rol", "ror"):
        k = c["k"]
        f = {"shl": operator.lshift, "shr": operator.rshift, "rol": rol, "ror": ror}[op]
        r = guard(f, A, k)
        is_vec(r, getattr(M, op)(a, k), op)
        if op in ("rol", "ror"):
            g = ror if op == "rol" else rol
            is_vec(guard(g, r, k), a, "rol/ror-not-inverse")
        scribble(r)
        is_vec(A, a, op + ":operand-changed")
        return
    if op == "mul":
        if "bint" in c:
            B, b, tag = c["bint"], c["bint"], "Bits*int"
        else:
            B, b, tag = guard(Bits, *c["b"]), tuple(c["b"]), "Bits*Bits"
        r = guard(operator.mul, A, B)
        is_vec(r, M.mul(a, b), tag)
        scribble(r)
        is_vec(A, a, tag + ":operand-changed")
        if isinstance(B, Bits):
            is_vec(B, b, tag + ":operand-changed")
        return
    if op == "concat":
        if "bint" in c:
            B, b, tag = c["bint"], c["bint"], "Bits//int"
        else:
            B, b, tag = guard(Bits, *c["b"]), tuple(c["b"]), "Bits//Bits"
        r = guard(operator.floordiv, A, B)
        exp = M.concat(a, b)
        is_vec(r, exp, tag)
        if isinstance(B, Bits):
            is_vec(guard(concat, [A, B]), exp, "concat([a,b])")
            is_vec(guard(concat, [B, A], True), exp, "concat([b,a],bigend)")
            # (a//b) cut at m gives back a and b
            is_vec(guard(lambda: r[0:m]), a, "(a//b)[:m]!=a")
            is_vec(guard(lambda: r[m:m + b[1]]), b, "(a//b)[m:]!=b")
            if m == b[1] and m > 0:
                parts = guard(r.split, m)
                eq(len(parts), 2, "(a//b).split(m):count")
                is_vec(parts[0], a, "(a//b).split(m)[0]")
                is_vec(parts[1], b, "(a//b).split(m)[1]")
        scribble(r)
        is_vec(A, a, tag + ":operand-changed")
        if isinstance(B, Bits):
            is_vec(B, b, tag + ":operand-changed")
        return
    if op == "split":
        k, big = c["k"], c["bigend"]
        parts = guard(A.split, k, big) if big else guard(A.split, k)
        exp = M.split(a, k, big)
        eq(len(parts), len(exp), "split:count")
        for p, e in zip(parts, exp):
            is_vec(p, e, "split:piece")
        if parts:
            whole = guard(concat, list(parts), big)
            is_vec(whole, a, "concat(split)!=original")
        for p in parts:
            scribble(p)
        is_vec(A, a, "split:operand-changed")
        return
    if op == "ext":
        size, kind = c["size"], c["kind"]
        if kind == "zero":
            r = guard(A.zeroextend, size)
            exp = M.zeroextend(a, size)
        elif kind == "sign":
            r = guard(A.signextend, size)
            exp = M.signextend(a, size)
        else:
            r = guard(A.extend, kind == "ext-sign", size)
            exp = M.signextend(a, size) if kind == "ext-sign" else M.zeroextend(a, size)
        is_vec(r, exp, kind + "extend")
        is_vec(A, exp, kind + "extend:self")
        eq(guard(r.int), x, kind + "extend:unsigned-value-changed") if kind in ("zero", "ext-zero") else \
            eq(guard(r.int, -1), M.signed(x, m), kind + "extend:signed-value-changed")
        return
    if op == "hw":
        eq(guard(A.hw), M.hw(a), "hw")
        is_vec(A, a, "hw:operand-changed")
        return
    if op == "hd":
        y, n = c["b"]
        B = guard(Bits, y, n)
        eq(guard(A.hd, B), bin(x ^ y).count("1"), "hd")
        eq(guard(B.hd, A), bin(x ^ y).count("1"), "hd:asymmetric")
        is_vec(A, a, "hd:operand-changed")
        is_vec(B, (y, n), "hd:operand-changed")
        return
    raise AssertionError(op)


def nontriv_op(c):
    if c["a"][0] == 0:
        return False
    if "b" in c:
        return c["b"][0] != 0
    if "bint" in c:
        return c["bint"] != 0
    return True


def classify_op(c):
    lab = [c["op"]]
    if "bint" in c:
        lab.append("int-left" if c.get("rev") else "int-right")
    return tuple(lab)


def op_cases(tier, rnd):
    top = 6
    vecs = [(x, m) for m in range(top + 1) for x in range(1 << m)]
    for a in vecs:
        x, m = a
        yield {"op": "neg", "a": a}
        yield {"op": "inv", "a": a}
        yield {"op": "hw", "a": a}
        for k in range(m + 4):
            yield {"op": "shl", "a": a, "k": k}
            yield {"op": "shr", "a": a, "k": k}
        for k in range(m + 1):
            yield {"op": "rol", "a": a, "k": k}
            yield {"op": "ror", "a": a, "k": k}
        for k in range(1, m + 2):
            yield {"op": "split", "a": a, "k": k, "bigend": False}
            yield {"op": "split", "a": a, "k": k, "bigend": True}
        for size in range(0, m + 4):
            for kind in ("zero", "ext-zero") + (("sign", "ext-sign") if m else ()):
                yield {"op": "ext", "a": a, "size": size, "kind": kind}
        for y in range(1 << (m + 1)):
            for op in BIN:
                yield {"op": op, "a": a, "bint": y}
                if op != "-" or y < (1 << m):
                    yield {"op": op, "a": a, "bint": y, "rev": True}
            yield {"op": "mul", "a": a, "bint": y}
            yield {"op": "concat", "a": a, "bint": y}
        for b in vecs:
            for op in BIN:
                yield {"op": op, "a": a, "b": b}
            yield {"op": "mul", "a": a, "b": b}
            yield {"op": "concat", "a": a, "b": b}
            if b[1] == m:
                yield {"op": "hd", "a": a, "b": b}


WIDE = [7, 8, 9, 15, 16, 17, 31, 32, 33, 63, 64, 65, 66, 127, 128, 129, 255, 256, 257, 1023, 1024, 2047, 2048]


def wide_strategy(tier):
    width = gen.pick((3, st.sampled_from(WIDE)), (1, gen.uint(7, 66)))
    vec = width.flatmap(lambda n: gen.nbits(n).map(lambda x: (x, n)))

    def build(a, b, sel, k, y, flag):
        m = a[1]
        k1 = k % (m + 4)
        ops = [
            lambda: {"op": sel_bin(sel), "a": a, "b": b},
            lambda: {"op": sel_bin(sel), "a": a, "bint": y & ((1 << m) - 1) if sel_bin(sel) == "-" and flag else y, "rev": flag},
            lambda: {"op": "neg", "a": a}, lambda: {"op": "inv", "a": a},
            lambda: {"op": "shl", "a": a, "k": k1}, lambda: {"op": "shr", "a": a, "k": k1},
            lambda: {"op": "rol", "a": a, "k": k % (m + 1)}, lambda: {"op": "ror", "a": a, "k": k % (m + 1)},
            lambda: {"op": "mul", "a": a, "b": b}, lambda: {"op": "mul", "a": a, "bint": y},
            lambda: {"op": "concat", "a": a, "b": b}, lambda: {"op": "concat", "a": a, "bint": y},
            lambda: {"op": "split", "a": a, "k": 1 + k % (m + 1), "bigend": flag},
            lambda: {"op": "split", "a": a, "k": [8, 16, 32, 64, 4][k % 5], "bigend": flag},
            lambda: {"op": "ext", "a": a, "size": m - 2 + k % 70, "kind": ["zero", "sign", "ext-zero", "ext-sign"][sel % 4]},
            lambda: {"op": "hw", "a": a},
            lambda: {"op": "hd", "a": a, "b": (b[0] & ((1 << m) - 1), m)},
        ]
        return ops[sel % len(ops)]()

    def sel_bin(sel):
        return "+-&|^"[(sel // 17) % 5]
    return st.builds(build, vec, vec, gen.uint(0, 17 * 5 * 4 - 1), gen.uint(0, 4200), gen.nbits(70), st.booleans())


# ---------------------------------------------------------------------------
# index expressions

def positions(n, c):
    kind = c["kind"]
    if kind == "int":
        return [c["idx"] % n]
    if kind == "slice":
        return list(range(n)[slice(*c["idx"])])
    return list(c["idx"])


def pyindex(c):
    if c["kind"] == "int":
        return c["idx"]
    if c["kind"] == "slice":
        return slice(*c["idx"])
    if c["kind"] == "tuple":
        return tuple(c["idx"])
    return list(c["idx"])


def check_index(c):
    n, x = c["n"], c["x"]
    a = (x, n)
    b = guard(Bits, x, n)
    pos = positions(n, c)
    idx = pyindex(c)
    r = guard(operator.getitem, b, idx)
    is_vec(r, M.select(a, pos), "read[%s]" % c["kind"])
    scribble(r)
    is_vec(b, a, "read[%s]:operand-changed" % c["kind"])
    w = c.get("write")
    if w is None:
        return
    form, val = w["form"], w["val"]
    L = len(pos)
    contiguous = c["kind"] == "slice" and (c["idx"][2] in (None, 1))
    if c["kind"] == "int":
        v = val & 1
        # the value of a single-bit write: an int, a bool, or a one-bit vector (b[i] = c[j])
        V = Bits(v, 1) if form == "bits" else bool(v) if form == "short" else v
        guard(operator.setitem, b, idx, V)
        exp = M.assign(a, pos, v)
        if form == "bits":
            is_vec(V, (v, 1), "write[int]:value-operand-changed")
    else:
        v = val & ((1 << L) - 1)
        if form == "bits":
            V = Bits(v, L)
        elif form == "list":
            V = M.bitlist(v, L)
        elif form == "short":      # a shorter vector: only meaningful for contiguous slices
            if not contiguous or L == 0:
                return
            V = Bits(v & ((1 << (L - 1)) - 1), L - 1)
            v = V.ival
        else:                       # int: fits a contiguous selection if v < 2^L, a listed one if its bit length is L
            if not contiguous and v.bit_length() != L:
                return
            V = v
        snap = (V.ival, V.size) if isinstance(V, Bits) else None
        guard(operator.setitem, b, idx, V)
        exp = M.assign(a, pos, v)
        if snap:
            is_vec(V, snap, "write[%s]:value-operand-changed" % c["kind"])
    is_vec(b, exp, "write[%s,%s]" % (c["kind"], form))


def nontriv_index(c):
    return c["n"] >= 1 and len(positions(c["n"], c)) >= 1 if (c["n"] or c["kind"] != "int") else False


def classify_index(c):
    lab = ["read+write" if c.get("write") else "read", c["kind"]]
    if c["kind"] == "slice":
        st_ = c["idx"][2]
        lab.append("step=1/None" if st_ in (None, 1) else "step<0" if st_ < 0 else "step>1")
    return tuple(lab)


def slice_args(n):
    return [None] + list(range(-n - 2, n + 3))


def index_cases(tier, rnd):
    top = 4 if tier == "quick" else 5
    steps = [None, 1, 2, 3, -1, -2, -3]
    forms = ["bits", "list", "int", "short"]
    for n in range(top + 1):
        sl = [(a, b, s) for a in slice_args(n) for b in slice_args(n) for s in steps]
        lists = []
        for L in range(0, min(n, 3) + 1):
            lists += list(itertools.product(range(n), repeat=L))
        for x in range(1 << n):
            for i in range(-n, n):
                yield {"n": n, "x": x, "kind": "int", "idx": i}
                for v in (0, 1):
                    yield {"n": n, "x": x, "kind": "int", "idx": i, "write": {"form": "int", "val": v}}
            for s in sl:
                yield {"n": n, "x": x, "kind": "slice", "idx": s}
                L = len(range(n)[slice(*s)])
                vals = range(1 << L) if L <= 2 else [0, (1 << L) - 1, rnd.randrange(1 << L)]
                for v in vals:
                    yield {"n": n, "x": x, "kind": "slice", "idx": s,
                           "write": {"form": forms[(v + x + L) % 4], "val": v}}
            for l in lists:
                yield {"n": n, "x": x, "kind": "list" if (len(l) + x) % 2 else "tuple", "idx": l}
                if len(set(l)) == len(l):
                    for v in range(1 << len(l)):
                        yield {"n": n, "x": x, "kind": "list", "idx": l,
                               "write": {"form": ["bits", "list", "int"][(v + x) % 3], "val": v}}


def index_strategy(tier):
    width = gen.pick((2, st.sampled_from(WIDE)), (2, gen.uint(1, 40)), (1, gen.uint(41, 300)))

    def for_width(n):
        arg = gen.pick((1, st.none()), (4, gen.uint(-n - 2, n + 2)))
        step = st.sampled_from([None, 1, 1, 2, 3, 7, -1, -2, -5])
        sl = st.tuples(arg, arg, step).map(lambda t: ("slice", t))
        it = gen.uint(-n, n - 1).map(lambda i: ("int", i))
        perm = st.permutations(range(min(n, 64))).flatmap(
            lambda p: gen.uint(0, len(p)).map(lambda k: ("list", tuple(p[:k]))))
        rep = st.lists(gen.uint(0, n - 1), max_size=12).map(lambda l: ("listr", tuple(l)))
        idx = gen.pick((4, sl), (2, it), (2, perm), (1, rep))
        wr = gen.pick((1, st.none()), (2, st.tuples(st.sampled_from(["bits", "list", "int", "short"]), gen.nbits(n))))

        def build(x, ix, w):
            kind, i = ix
            c = {"n": n, "x": x, "kind": "list" if kind == "listr" else kind, "idx": i}
            if w is not None and kind != "listr":
                c["write"] = {"form": w[0], "val": w[1]}
            return c
        return st.builds(build, gen.nbits(n), idx, wr)
    return width.flatmap(for_width)


# ---------------------------------------------------------------------------
# histories of mutating operations on one vector (model-based, interpreter over an op list)

def check_history(c):
    n, x = c["n"], c["x"]
    b = guard(Bits, x, n)
    cur = (x, n)
    derived = []          # (object, expected pair) taken earlier: must never change afterwards
    for step, op in enumerate(c["ops"]):
        kind = op[0]
        n = cur[1]
        tag = "history:%s" % kind
        if kind == "setbit":
            if n == 0:
                continue
            i = op[1] % n
            guard(operator.setitem, b, i - n if op[3] else i, op[2])
            cur = M.assign(cur, [i], op[2])
        elif kind == "setslice":
            s = slice(*op[1])
            pos = list(range(n)[s])
            L = len(pos)
            v = op[2] & ((1 << L) - 1)
            guard(operator.setitem, b, s, Bits(v, L))
            cur = M.assign(cur, pos, v)
        elif kind == "setlist":
            if n == 0:
                continue
            pos = []
            for j in op[1]:
                if j % n not in pos:
                    pos.append(j % n)
            v = op[2] & ((1 << len(pos)) - 1)
            guard(operator.setitem, b, list(pos), M.bitlist(v, len(pos)))
            cur = M.assign(cur, pos, v)
        elif kind == "size":
            b.size = op[1]
            cur = M.resize(cur[0], cur[1], op[1])
        elif kind == "zeroextend":
            r = guard(b.zeroextend, n + op[1])
            cur = M.zeroextend(cur, n + op[1])
            expect(r is b, tag + ":does-not-return-self")
        elif kind == "signextend":
            if n == 0:
                continue
            guard(b.signextend, n + op[1])
            cur = M.signextend(cur, n + op[1])
        elif kind == "copy":
            derived.append((guard(Bits, b), cur))
        elif kind == "derive":
            how = op[1]
            if how == "slice":
                s = slice(*op[2])
                derived.append((guard(operator.getitem, b, s), M.select(cur, list(range(n)[s]))))
            elif how == "xor":
                derived.append((guard(operator.xor, b, op[2]), M.binop("^", cur, op[2])))
            elif how == "add":
                derived.append((guard(operator.add, b, op[2]), M.binop("+", cur, op[2])))
            elif how == "shl":
                derived.append((guard(operator.lshift, b, op[2] % (n + 2)), M.shl(cur, op[2] % (n + 2))))
            elif how == "inv":
                derived.append((guard(operator.invert, b), M.inv(cur)))
            elif how == "split":
                k = 1 + op[2] % (n + 1)
                for p, e in zip(guard(b.split, k), M.split(cur, k)):
                    derived.append((p, e))
        elif kind == "mutate-derived":
            if derived:
                j = op[1] % len(derived)
                o, e = derived[j]
                o.size = o.size + 1
                o[0] = 1
                derived[j] = (o, ((e[0] | 1), e[1] + 1))
        else:
            raise AssertionError(kind)
        is_vec(b, cur, tag + ":vector!=model")
        for o, e in derived:
            is_vec(o, e, tag + ":earlier-result-changed")


def history_strategy(tier):
    maxops = 12 if tier == "quick" else 30
    arg = gen.pick((1, st.none()), (4, gen.uint(-70, 70)))
    sl = st.tuples(arg, arg, st.sampled_from([None, 1, 1, 2, -1, 3, -2]))
    big = gen.nbits(80)
    ops = gen.pick(
        (3, st.tuples(st.just("setbit"), gen.uint(0, 500), gen.uint(0, 1), st.booleans())),
        (3, st.tuples(st.just("setslice"), sl, big)),
        (2, st.tuples(st.just("setlist"), st.lists(gen.uint(0, 500), max_size=8).map(tuple), big)),
        (2, st.tuples(st.just("size"), gen.pick((3, gen.uint(0, 70)), (1, st.sampled_from([0, 1, 63, 64, 65, 128]))))),
        (1, st.tuples(st.just("zeroextend"), gen.uint(0, 40))),
        (2, st.tuples(st.just("signextend"), gen.uint(0, 40))),
        (1, st.tuples(st.just("copy"))),
        (2, st.tuples(st.just("derive"), st.just("slice"), sl)),
        (1, st.tuples(st.just("derive"), st.sampled_from(["xor", "add", "shl"]), gen.nbits(20))),
        (1, st.tuples(st.just("derive"), st.sampled_from(["inv", "split"]), gen.uint(0, 70))),
        (1, st.tuples(st.just("mutate-derived"), gen.uint(0, 50))),
    )
    width = gen.pick((2, gen.uint(0, 12)), (2, st.sampled_from([31, 32, 33, 63, 64, 65])), (1, gen.uint(13, 70)))
    return width.flatmap(lambda n: st.builds(lambda x, o: {"n": n, "x": x, "ops": o}, gen.nbits(n),
                                             st.lists(ops, min_size=1, max_size=maxops)))


# ---------------------------------------------------------------------------
# the assigned value is the vector itself (the right-hand side is read before anything is written)
def check_selfassign(c):
    n, x = c["n"], c["x"]
    b = guard(Bits, x, n)
    keep = guard(Bits, b)
    if c["sel"] == "list":
        sel, pos = list(c["perm"]), list(c["perm"])
    else:
        sel = slice(*c["sel"])
        pos = list(range(n)[sel])
    expect(len(pos) == n, "harness: selection must address every bit")
    guard(operator.setitem, b, sel, b)
    is_vec(b, M.assign((0, n), pos, x), "b[%s]=b" % ("list" if c["sel"] == "list" else "slice"))
    is_vec(keep, (x, n), "b[..]=b:copy-changed")


def selfassign_cases(tier, rnd):
    top = 5 if tier == "quick" else 7
    for n in range(top + 1):
        perms = list(itertools.permutations(range(n)))
        for x in range(1 << n):
            for p in perms:
                yield {"n": n, "x": x, "sel": "list", "perm": p}
            for sl in ((None, None, -1), (None, None, None), (0, n, 1), (-n - 1 if n else None, None, None)):
                if len(range(n)[slice(*sl)]) == n:
                    yield {"n": n, "x": x, "sel": sl}
    for n in (8, 13, 31, 32, 33, 63, 64, 65, 128, 256):
        for _ in range(4 if tier == "quick" else 40):
            x = rnd.getrandbits(n)
            idx = list(range(n))
            yield {"n": n, "x": x, "sel": (None, None, -1)}
            yield {"n": n, "x": x, "sel": "list", "perm": tuple(idx[1:] + idx[:1])}
            yield {"n": n, "x": x, "sel": "list", "perm": tuple(idx[::-1])}
            rnd.shuffle(idx)
            yield {"n": n, "x": x, "sel": "list", "perm": tuple(idx)}


FACETS = [
    Facet("self-assignment", check_selfassign, cases=selfassign_cases, exhaustive=False, distinct=True,
          nontrivial=lambda c: c["n"] >= 2 and c["x"] not in (0, (1 << c["n"]) - 1),
          classify=lambda c: ("list" if c["sel"] == "list" else "slice", "n<=7" if c["n"] <= 7 else "n>7"),
          shards={"quick": 2, "thorough": 8},
          rule="b[sel] = b for every permutation list and full-length slice (reversal, [:], [0:n]) at sizes 0..5 (0..7 thorough), "
               "every value; reversal / rotation / random permutation at sizes 8..256"),
    Facet("operators-exhaustive", check_op, cases=op_cases, exhaustive=True, distinct=True,
          nontrivial=nontriv_op, classify=classify_op, shards={"quick": 12, "thorough": 16},
          rule="every vector of size 0..6 (127 values), every ordered pair (16 129), every int operand < 2^(size+1) on either side, "
               "every shift 0..size+3, rotation 0..size, split size, extension size; operators + - & | ^ ~ neg * // << >> rol ror split ext hw hd"),
    Facet("operators-wide", check_op, strategy=wide_strategy, budget={"quick": 6000, "thorough": 120000},
          nontrivial=nontriv_op, classify=classify_op,
          rule="sizes at word boundaries 7..2048, uniform/special operand values, all operators"),
    Facet("index-exhaustive", check_index, cases=index_cases, exhaustive=True, distinct=True,
          nontrivial=nontriv_index, classify=classify_index, shards={"quick": 12, "thorough": 16},
          rule="sizes 0..4 (0..5 thorough), every value, every int index -n..n-1, every slice with start/stop in {None,-n-2..n+2} "
               "and step in {None,+-1,+-2,+-3}, every index list of length <= 3 (with repeats for reads); reads and writes (Bits/list/int/shorter-Bits values)"),
    Facet("index-wide", check_index, strategy=index_strategy, budget={"quick": 6000, "thorough": 120000}, fuzz={"thorough": 100000},
          nontrivial=nontriv_index, classify=classify_index,
          rule="sizes 1..2048: random slices incl. negative/None/out-of-range bounds and steps, index permutations, repeated lists; reads and writes"),
    Facet("mutation-histories", check_history, strategy=history_strategy, budget={"quick": 3000, "thorough": 60000},
          nontrivial=lambda c: len(c["ops"]) >= 2,
          classify=lambda c: tuple(sorted(set(o[0] for o in c["ops"]))) + ("len>=8",) * (len(c["ops"]) >= 8),
          rule="op lists (setbit/setslice/setlist/size shrink+grow/zero-/signextend/copy/derive/mutate-derived) on one vector, "
               "model compared after every step, every earlier copy/slice/result re-checked after every step"),
]
WEIGHT = {"operators-exhaustive": 5, "index-exhaustive": 5, "mutation-histories": 3, "operators-wide": 2, "index-wide": 2}
