"""C09 - Padding: exact message||pad in full blocks, true bit counts, unpad inverts pad.
Oracle: ref/padref.py (each scheme 3-6 lines on bit strings, minimal by construction)."""
import itertools
from hypothesis import strategies as st
from vlib.core import Facet, Violation, ALLOWED, guard, attempt, eq, expect
from vlib import gen
from ref import padref as R

from crysp import padding as P

RULE = ("A case = (scheme, block size, message bytes, optional bit length).  The generator is stepped block by block; "
        "block length, bitcnt after every block, concatenation, block count, padcnt, remove() and the refusal of a "
        "further call are checked.  Non-trivial = non-empty message and (>= 2 blocks, or L%8 != 0, or the pad spills "
        "into an extra block).")
ASSUMPTIONS = ["zero padding of the empty message - also of an empty final piece after whole-block continuation pieces - may emit either no block or one zero block (the property leaves it open)",
               "an empty trailing block of the unpadded scheme for the empty message is tolerated",
               "bit lengths are not combined with continuation (padding=False) calls",
               "malformed-padding inputs are whole numbers of blocks, or empty",
               "L = 0 is only generated with the empty message (the API reads 0 as 'not given')"]
SELFTESTS = [("padref", R.selftest)]

GENERIC = ("nopadding", "null", "bit", "pkcs7", "x923")
BITGRAN = ("null", "bit", "md", "sha", "blake")
MDSHA_CFG = [(128, 32), (256, 32), (512, 32), (1024, 32), (256, 64), (512, 64), (1024, 64)]


def make(c):
    s, B, w = c["scheme"], c["B"], c.get("w")
    if s == "nopadding":
        return guard(P.nopadding, B)
    if s == "null":
        return guard(P.Nullpadding, B)
    if s == "bit":
        return guard(P.bitpadding, B)
    if s == "pkcs7":
        return guard(P.pkcs7, B)
    if s == "x923":
        return guard(P.X923, B)
    if s == "md":
        return guard(P.MDpadding, B, w)
    if s == "sha":
        return guard(P.SHApadding, B, w)
    if s == "blake":
        return guard(P.Blakepadding, B)
    raise AssertionError(s)


def expected_bitcnt(i, Bb, L):
    return min(L, (i + 1) * Bb) if i * Bb < L else 0


def check_emit(c, obj=None):
    s, M, L = c["scheme"], c["M"], c["L"]
    Bb = R.blocksize(s, c["B"])
    bl = Bb // 8
    if obj is None:
        obj = make(c)
    eq((obj.bitcnt, obj.padcnt, obj.padflag), (0, 0, False), s + ":fresh-counters")
    Leff = 8 * len(M) if L is None else L
    ref = R.pad(s, c["B"], M, L, c.get("w"))
    g = obj.iterblocks(M) if L is None else obj.iterblocks(M, bitlen=L)
    # iterate by hand: next() raises StopIteration at the end -> use a sentinel wrapper
    blocks = []
    i = 0
    it = iter(g)
    while True:
        st_, b = attempt(next, it, None)
        if st_ == "exc":
            raise Violation("emit:exc:%s" % type(b).__name__, actual=repr(b)[:200])
        if b is None:
            break
        blocks.append(b)
        bc, ebc = obj.bitcnt, expected_bitcnt(i, Bb, Leff)
        if bc != ebc:
            raise Violation(s + ":bitcnt-after-block", {"block": i, "bitcnt": ebc}, {"block": i, "bitcnt": bc})
        i += 1
    got = b"".join(blocks)
    if s == "nopadding":
        full = blocks[:-1] if blocks else []
        if Leff == 0:
            expect(blocks in ([], [b""]), s + ":empty-message-blocks", [], blocks)
        else:
            expect(all(len(b) == bl for b in full) and 0 < len(blocks[-1]) <= bl, s + ":block-length",
                   bl, [len(b) for b in blocks])
    elif s == "null" and Leff == 0:
        expect(blocks in ([], [b"\0" * bl]), s + ":empty-message-blocks", [], blocks)
        return
    else:
        expect(all(len(b) == bl for b in blocks), s + ":block-length", bl, [len(b) for b in blocks])
    eq(got, ref, s + ":content!=spec")
    if s != "nopadding":
        eq(len(blocks), len(ref) // bl, s + ":block-count")
    if s in ("null", "bit", "pkcs7", "x923"):
        eq(obj.padcnt, 8 * len(ref) - Leff, s + ":padcnt")
    expect(obj.padflag is True, s + ":padflag-not-set-after-final-block")
    # removal on the same object gives back M[0:L]
    out = guard(obj.remove, got)
    expect(isinstance(out, bytes), s + ".remove:type", "bytes", type(out).__name__)
    eq(out, R.truncated(M, L), s + ".remove!=message")
    # a second message after the pad is refused
    st_, r = attempt(lambda: list(obj.iterblocks(b"x" * bl)))
    if st_ == "ok":
        raise Violation(s + ":second-message-after-pad-accepted", "an exception", r)


def spills(c):
    s = c["scheme"]
    Bb = R.blocksize(s, c["B"])
    L = 8 * len(c["M"]) if c["L"] is None else c["L"]
    if s == "nopadding":
        return False
    return len(R.pad(s, c["B"], c["M"], c["L"], c.get("w"))) * 8 > ((L + Bb - 1) // Bb) * Bb or L % Bb == 0


def nontriv_emit(c):
    s = c["scheme"]
    Bb = R.blocksize(s, c["B"])
    L = 8 * len(c["M"]) if c["L"] is None else c["L"]
    return L > 0 and (L > Bb or L % 8 != 0 or spills(c))


def classify_emit(c):
    s = c["scheme"]
    Bb = R.blocksize(s, c["B"])
    L = 8 * len(c["M"]) if c["L"] is None else c["L"]
    lab = [s, "blocks=%d" % min(3, L // Bb)]
    if c["L"] is not None:
        lab.append("L%8!=0" if L % 8 else "L given,%8==0")
        if L <= 8 * len(c["M"]) - 8:
            lab.append("L<8|M|-7")
    if L % Bb == 0:
        lab.append("residue=0")
    if spills(c):
        lab.append("pad spills/extra block")
    return tuple(lab)


def sweep_cases(tier, rnd):
    if tier == "quick":
        sizes = [8, 16, 24, 64, 128, 256]
    else:
        sizes = list(range(8, 1025, 8))

    def messages(Bb, bitgran):
        bl = Bb // 8
        top = 3 * bl + 1
        for n in range(top + 1):
            M = bytes(rnd.randrange(256) for _ in range(n))
            yield M, None
            if bitgran and n >= 1:
                near = n % bl in (0, 1, bl - 1) or n <= 2 or tier == "thorough" and bl <= 16
                Ls = range(8 * n - 7, 8 * n + 1) if near else [8 * n - rnd.randrange(1, 8)]
                for L in Ls:
                    yield M, L
                # prefix of a longer byte string
                extra = bytes(rnd.randrange(256) for _ in range(1 + rnd.randrange(40)))
                yield M + extra, 8 * n - rnd.randrange(8)
    for s in GENERIC:
        for B in sizes:
            if s in ("x923", "pkcs7") and B // 8 > 255:
                continue
            for M, L in messages(B, s in BITGRAN):
                yield {"scheme": s, "B": B, "M": M, "L": L}
    for s in ("md", "sha"):
        for B, w in MDSHA_CFG:
            for M, L in messages(B, True):
                yield {"scheme": s, "B": B, "w": w, "M": M, "L": L}
    for h in (224, 256, 384, 512):
        for M, L in messages(R.blocksize("blake", h), True):
            yield {"scheme": "blake", "B": h, "M": M, "L": L}


def emit_strategy(tier):
    maxblocks = 4 if tier == "quick" else 8

    def cfg():
        g = st.tuples(st.sampled_from(GENERIC), gen.pick((1, st.sampled_from([8, 16, 64, 128, 512, 1024])),
                                                         (2, gen.uint(1, 128).map(lambda k: 8 * k)))).map(
            lambda t: {"scheme": t[0], "B": t[1]})
        m = st.tuples(st.sampled_from(["md", "sha"]), st.sampled_from(MDSHA_CFG)).map(
            lambda t: {"scheme": t[0], "B": t[1][0], "w": t[1][1]})
        b = st.sampled_from([224, 256, 384, 512]).map(lambda h: {"scheme": "blake", "B": h})
        return gen.pick((3, g), (2, m), (1, b))

    def with_msg(c):
        Bb = R.blocksize(c["scheme"], c["B"])
        bl = Bb // 8
        spill = [bl - 1 - 2 * (c.get("w") or 32) // 8, bl - 2 * (c.get("w") or 32) // 8]
        ln = gen.length(bl, maxblocks, special=[x for x in spill if x >= 0])

        def build(M, lmode, d, extra):
            cc = dict(c)
            n = len(M)
            if c["scheme"] in BITGRAN and lmode and n >= 1:
                cc["L"] = 8 * n - d
                cc["M"] = M + extra if lmode == 2 else M
            else:
                cc["L"] = None
                cc["M"] = M
            return cc
        return st.builds(build, gen.blob_of(ln), gen.uint(0, 2), gen.uint(0, 7), gen.blob_of(gen.uint(1, 40)))
    return cfg().flatmap(with_msg)


# ---------------------------------------------------------------------------
# refusals
def check_refusal(c):
    obj = make(c)
    M = c["M"]
    Bb = R.blocksize(c["scheme"], c["B"])
    if c["kind"] == "bitlen-too-large":
        st_, r = attempt(lambda: list(obj.iterblocks(M, bitlen=8 * len(M) + c["delta"])))
        what = "bitlen>8|M|"
    elif c["kind"] == "partial-without-padding":
        st_, r = attempt(lambda: list(obj.iterblocks(M, padding=False)))
        what = "partial-blocks,padding=False"
    else:
        list(obj.iterblocks(M))
        st_, r = attempt(lambda: list(obj.iterblocks(c["M2"])))
        what = "second-message-after-pad"
    if st_ == "ok":
        raise Violation("%s:%s-accepted" % (c["scheme"], what), "an exception", [bytes(x) for x in r])
    return ALLOWED


def refusal_strategy(tier):
    def build(c, M, kind, delta, M2):
        c = dict(c)
        Bb = R.blocksize(c["scheme"], c["B"])
        bl = Bb // 8
        if kind == "partial-without-padding" and len(M) % bl == 0:
            M = M + b"\x01"
            if bl == 1:
                kind = "second-message"
        c.update({"M": M, "kind": kind, "delta": delta, "M2": M2})
        return c
    cfg = gen.pick(
        (3, st.tuples(st.sampled_from(GENERIC), st.sampled_from([8, 16, 64, 128])).map(lambda t: {"scheme": t[0], "B": t[1]})),
        (2, st.tuples(st.sampled_from(["md", "sha"]), st.sampled_from(MDSHA_CFG)).map(lambda t: {"scheme": t[0], "B": t[1][0], "w": t[1][1]})),
        (1, st.sampled_from([224, 256, 384, 512]).map(lambda h: {"scheme": "blake", "B": h})))
    return st.builds(build, cfg, gen.blob_of(gen.uint(0, 150)),
                     st.sampled_from(["bitlen-too-large", "partial-without-padding", "second-message"]),
                     gen.pick((2, gen.uint(1, 8)), (1, gen.uint(9, 3000))), gen.blob_of(gen.uint(0, 40)))


# ---------------------------------------------------------------------------
# malformed PKCS#7 / X9.23
def check_unpad(c):
    s, bl, X = c["scheme"], c["bl"], c["X"]
    obj = guard(P.pkcs7 if s == "pkcs7" else P.X923, 8 * bl)
    valid, exp = R.valid_bytepad(s, X, bl)
    st_, r = attempt(obj.remove, X)
    if valid:
        if st_ == "exc":
            raise Violation("%s.remove:valid-padding-rejected" % s, exp, repr(r)[:100])
        eq(r, exp, "%s.remove:wrong-result" % s)
        return
    if st_ == "ok":
        raise Violation("%s.remove:malformed-accepted" % s, "PaddingError", r)
    if not isinstance(r, P.PaddingError):
        raise Violation("%s.remove:malformed:%s-instead-of-PaddingError" % (s, type(r).__name__), "PaddingError", repr(r)[:100])
    return ALLOWED


def unpad_strategy(tier):
    def for_bl(bl):
        def build(s, body, q, corrupt, pos, val, nblk):
            if corrupt == 5:
                return {"scheme": s, "bl": bl, "X": b""}
            q = 1 + q % bl
            tail = bytes([q]) * q if s == "pkcs7" else b"\0" * (q - 1) + bytes([q])
            body = (body * (nblk * bl))[: nblk * bl - q] if nblk * bl >= q else b""
            X = bytearray(body + tail)
            if corrupt == 1:
                X[-1] = 0
            elif corrupt == 2:
                X[-1] = min(255, bl + 1 + val % 5)
            elif corrupt == 3 and q > 1:
                X[-1 - (1 + pos % (q - 1))] ^= 1 + val % 255
            elif corrupt == 4:
                X = bytearray((bytes([val]) + body + tail)[: nblk * bl] or b"\0" * bl)
            elif corrupt == 6 and q > 1:
                # a well-formed pad tail that is longer than the data handed over (the count cannot be honoured)
                X = bytearray(tail[-(1 + pos % (q - 1)):])
            return {"scheme": s, "bl": bl, "X": bytes(X)}
        return st.builds(build, st.sampled_from(["pkcs7", "x923"]), st.binary(min_size=1, max_size=40), gen.uint(0, 300),
                         gen.uint(0, 6), gen.uint(0, 300), gen.uint(0, 255), gen.uint(1, 3))
    return gen.pick((2, st.sampled_from([1, 2, 8, 16])), (1, gen.uint(1, 40)), (1, st.sampled_from([64, 128, 255]))).flatmap(for_bl)


def unpad_cases(tier, rnd):
    """every string of one or two blocks for tiny block lengths"""
    for s in ("pkcs7", "x923"):
        yield {"scheme": s, "bl": 1, "X": b""}
        for bl, nblk in ((1, 1), (1, 2), (2, 1)) + (((3, 1), (2, 2)) if tier == "thorough" else ()):
            for t in itertools.product(range(256), repeat=bl * nblk) if bl * nblk <= 2 else \
                    itertools.product([0, 1, 2, 3, 4, 5, 255], repeat=bl * nblk):
                yield {"scheme": s, "bl": bl, "X": bytes(t)}
        # pad tails cut short: the count byte asks for more than there is
        for bl in (2, 3, 4, 8, 16):
            for q in range(2, bl + 1):
                tail = bytes([q]) * q if s == "pkcs7" else b"\0" * (q - 1) + bytes([q])
                for keep in range(1, q):
                    yield {"scheme": s, "bl": bl, "X": tail[-keep:]}


# ---------------------------------------------------------------------------
# continuation histories
def check_history(c):
    s = c["scheme"]
    Bb = R.blocksize(s, c["B"])
    bl = Bb // 8
    obj = make(c)
    pieces, last = c["pieces"], c["last"]
    whole = b"".join(pieces) + last
    L = 8 * len(whole)
    ref = R.pad(s, c["B"], whole, None, c.get("w"))
    blocks = []
    fed = 0
    for p in pieces:
        it = iter(obj.iterblocks(p, padding=False))
        while True:
            st_, b = attempt(next, it, None)
            if st_ == "exc":
                raise Violation("history:exc:%s@continuation" % type(b).__name__, actual=repr(b)[:200])
            if b is None:
                break
            blocks.append(b)
            ebc = expected_bitcnt(len(blocks) - 1, Bb, L)
            if obj.bitcnt != ebc:
                raise Violation("history:bitcnt-after-continuation-block", ebc, obj.bitcnt)
        fed += 8 * len(p)
        eq(obj.bitcnt, fed, "history:bitcnt-after-piece")
        expect(obj.padflag is False, "history:padflag-set-by-continuation")
    if c.get("reset") == "mid":
        # the stream is given up: after reset() the object pads the next message like a fresh one
        guard(obj.reset)
        check_emit(dict(c, M=last, L=None), obj)
        return
    it = iter(obj.iterblocks(last))
    while True:
        st_, b = attempt(next, it, None)
        if st_ == "exc":
            raise Violation("history:exc:%s@final" % type(b).__name__, actual=repr(b)[:200])
        if b is None:
            break
        if s == "nopadding" and b == b"":
            continue            # the unpadded scheme's empty trailing block carries neither message nor pad
        if s == "null" and last == b"" and b == b"\0" * bl and len(blocks) * bl == len(ref):
            continue            # zero padding of an empty (final) message: no block or one zero block (left open)
        blocks.append(b)
        ebc = expected_bitcnt(len(blocks) - 1, Bb, L)
        if obj.bitcnt != ebc:
            raise Violation("history:bitcnt-after-final-block", {"block": len(blocks) - 1, "bitcnt": ebc}, obj.bitcnt)
    got = b"".join(blocks)
    if s == "null" and L == 0:
        expect(blocks in ([], [b"\0" * bl]), "history:null-empty")
    elif s == "nopadding":
        eq(got, ref, "history:content!=spec")
    else:
        eq(got, ref, "history:content!=spec")
        eq(len(blocks), len(ref) // bl, "history:block-count")
    st_, r = attempt(lambda: list(obj.iterblocks(b"")))
    if st_ == "ok":
        raise Violation("history:call-after-final-block-accepted", "an exception", r)
    st_, r = attempt(lambda: list(obj.iterblocks(b"y" * bl, padding=False)))
    if st_ == "ok":
        raise Violation("history:continuation-after-final-block-accepted", "an exception", r)
    if c.get("reset") == "end":
        guard(obj.reset)
        check_emit(dict(c, M=last[::-1] + pieces[0][:3], L=None), obj)


def history_strategy(tier):
    cfg = gen.pick(
        (3, st.tuples(st.sampled_from(GENERIC), st.sampled_from([8, 16, 64, 128])).map(lambda t: {"scheme": t[0], "B": t[1]})),
        (2, st.tuples(st.sampled_from(["md", "sha"]), st.sampled_from(MDSHA_CFG)).map(lambda t: {"scheme": t[0], "B": t[1][0], "w": t[1][1]})),
        (1, st.sampled_from([224, 256, 384, 512]).map(lambda h: {"scheme": "blake", "B": h})))

    def with_pieces(c):
        bl = R.blocksize(c["scheme"], c["B"]) // 8
        piece = gen.pick((1, st.just(0)), (3, gen.uint(1, 3))).flatmap(lambda k: gen.blob(k * bl))
        last = gen.blob_of(gen.pick((1, st.just(0)), (1, st.sampled_from([1, bl - 1, bl, bl + 1])), (2, gen.uint(0, 2 * bl + 3))))
        return st.builds(lambda ps, l, r: dict(c, pieces=tuple(ps), last=l, reset=r), st.lists(piece, min_size=1, max_size=4), last,
                         st.sampled_from([None, None, "end", "mid"]))
    return cfg.flatmap(with_pieces)


FACETS = [
    Facet("emit-sweep", check_emit, cases=sweep_cases, distinct=False, nontrivial=nontriv_emit, classify=classify_emit,
          shards={"quick": 12, "thorough": 32},
          rule="8 schemes; block sizes {8,16,24,64,128,256} bits quick / every multiple of 8 up to 1024 thorough, 7 (block,word) "
               "configurations for MD/SHA, 4 BLAKE sizes; EVERY byte length 0..3B+1; for bit-granular schemes every L%8 near block "
               "boundaries and one random residue elsewhere, plus L as a prefix of a longer byte string"),
    Facet("emit-random", check_emit, strategy=emit_strategy, budget={"quick": 4000, "thorough": 80000},
          nontrivial=nontriv_emit, classify=classify_emit,
          rule="random configuration, length = k*B + boundary-biased residue (incl. the length-field spill boundary), k <= 4 (8)"),
    Facet("refusals", check_refusal, strategy=refusal_strategy, budget={"quick": 1500, "thorough": 30000},
          nontrivial=lambda c: True, classify=lambda c: (c["kind"],),
          rule="bit length beyond the data, partial blocks with padding=False, second message after the pad: must raise"),
    Facet("unpad-tiny-exhaustive", check_unpad, cases=unpad_cases, exhaustive=True, distinct=True,
          nontrivial=lambda c: len(c["X"]) > 0, classify=lambda c: (c["scheme"], "valid" if R.valid_bytepad(c["scheme"], c["X"], c["bl"])[0] else "malformed"),
          shards={"quick": 4, "thorough": 8},
          rule="PKCS#7/X9.23 remove on every 1- and 2-byte string with block length 1 and 2 (+ small alphabets on 3-4 bytes thorough), and every "
               "well-formed pad tail cut shorter than its count for block lengths 2..16"),
    Facet("unpad-malformed", check_unpad, strategy=unpad_strategy, budget={"quick": 4000, "thorough": 80000}, fuzz={"thorough": 120000},
          nontrivial=lambda c: len(c["X"]) > 0,
          classify=lambda c: (c["scheme"], "valid" if R.valid_bytepad(c["scheme"], c["X"], c["bl"])[0] else "malformed"),
          rule="valid paddings and corruptions of them (last byte 0 / > block / one pad byte flipped / shifted), block length 1..255: "
               "PaddingError exactly when my validity predicate says malformed, X[:-q] otherwise"),
    Facet("continuation-histories", check_history, strategy=history_strategy, budget={"quick": 2500, "thorough": 50000},
          nontrivial=lambda c: len(c["pieces"]) >= 1 and sum(map(len, c["pieces"])) > 0,
          classify=lambda c: (c["scheme"], "has empty piece" if any(len(p) == 0 for p in c["pieces"]) else "no empty piece",
                              "empty final" if not c["last"] else "non-empty final", "reset=%s" % c.get("reset")),
          rule="1-4 whole-block pieces (some empty) with padding=False then a final piece: blocks == reference padding of the "
               "concatenation, bitcnt after every block and piece, further calls refused; in half of the cases reset() follows (after the "
               "final block, or instead of it) and the next message must be padded as by a fresh object (all emit checks)"),
]
WEIGHT = {"emit-sweep": 6, "emit-random": 3}
