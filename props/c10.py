"""C10 - One-shot results depend only on the arguments, never on earlier calls.
Oracle: the outcome (value or exception type) of every one-shot call in a generated call history equals the outcome of the
same call on a freshly constructed, equally configured object.  Incremental (update, half-consumed generator) and
reconfiguring calls appear in histories only as EARLIER calls; their own results depend on history by contract (C14)."""
import copy, itertools, zlib
from hypothesis import strategies as st
from vlib.core import Facet, Violation, ALLOWED, guard, attempt, eq, expect
from vlib import gen

from ref import mdsha as RMD, blake as RBL, keccak as RKE, skein as RSK, aes as RAES, des as RDES, serpent as RSER, threefish as RTF, modes as RMO
import hashlib, hmac as pyhmac

from crysp.bits import Bits
from crysp import sha as csha, md as cmd, keccak as ckeccak, blake as cblake, skein as cskein, hmac as chmac, tlsh as ctlsh
from crysp import nilsimsa as cnil, aes as caes, des as cdes, serpent as cser, threefish as ctf, mode as cmode, padding as cpad
from crysp import salsa20 as csalsa, chacha as cchacha, crc as ccrc

RULE = ("Case = (object kind, list of (target, call) pairs); targets: the instance under test, a sibling with the same configuration, "
        "a sibling with another configuration.  After every one-shot call its outcome is compared with a fresh object's.  "
        "Non-trivial = the compared call is preceded by at least one call of a different form.")
ASSUMPTIONS = ["update()/half-consumed generators/duplex are history only (their own value depends on history by contract)",
               "module singletons are deep-copied before and restored after each case, so a leak cannot make the next case irreproducible",
               "a fresh object's own result must not change during the process either (class-level caches)"]

M0, M1 = b"", b"abc"
M2 = bytes((i * 7 + 3) & 255 for i in range(200))
M3 = bytes((i * 13 + 1) & 255 for i in range(600))
B8, B16 = bytes(range(8)), bytes(range(16))
B32, B64, B128 = bytes(range(32)), bytes(range(64)), bytes(range(128))


class Call(object):
    def __init__(self, label, fn, oneshot=True, newfactory=None):
        self.label, self.fn, self.oneshot = label, fn, oneshot
        self.newfactory = newfactory      # a reconfiguring call: afterwards "equally configured fresh object" means newfactory()


def one(label, fn):
    return Call(label, fn, True)


def hist(label, fn):
    return Call(label, fn, False)


def reconf(label, fn, newfactory):
    return Call(label, fn, False, newfactory)


def hash_calls(block):
    return [one("h(abc)", lambda h: h(M1)), one("h(200B)", lambda h: h(M2)), one("h(abc,bitlen=21)", lambda h: h(M1, bitlen=21)),
            one("h(abc,bitlen=100)->error", lambda h: h(M1, bitlen=100)), one("h(empty)", lambda h: h(M0)),
            hist("update(block) unfinished", lambda h: h.update(bytes(block))),
            hist("update(abc,padding=True)", lambda h: h.update(M1, padding=True)),
            hist("update(partial) -> error", lambda h: h.update(b"xy"))]


def keccak_calls():
    return [one("k(abc)", lambda k: k(M1)), one("k(200B)", lambda k: k(M2)), one("k(abc,bitlen=21)", lambda k: k(M1, bitlen=21)),
            one("k(abc,r=1024) per-call rate", lambda k: k(M1, r=1024)), one("k(abc,bitlen=100)->error", lambda k: k(M1, bitlen=100)),
            one("k(200B,r=8)", lambda k: k(M2[:20], r=8)), one("k(abc,r=b)->error", lambda k: k(M1, r=k.b)),
            one("k(abc,r=1537)->error", lambda k: k(M1, r=1537)),
            hist("duplex(1 bit)", lambda k: k.duplex(b"\x01", bitlen=1, outlen=8))]


def blake2_calls():
    return [one("h(abc)", lambda h: h(M1)), one("h(200B)", lambda h: h(M2)), one("h(abc,outlen=4)", lambda h: h(M1, outlen=4)),
            one("h(abc,salt,pers)", lambda h: h(M1, salt=bytes(range(len(h.IV.ival) * 2 if False else (16 if h.size == 512 else 8))),
                                                  pers=bytes(range(16 if h.size == 512 else 8)))),
            one("h(abc,fanout=2,depth=3,inner=5)", lambda h: h(M1, fanout=2, depth=3, inner=5)),
            one("h(abc,outlen=100)->error", lambda h: h(M1, outlen=100)),
            hist("initstate(outlen=3);update(block)", lambda h: (h.initstate(outlen=3), h.update(bytes(h.blocksize // 8)))),
            hist("update(abc,padding=True)", lambda h: h.update(M1, padding=True))]


def cipher_calls(n):
    blk1, blk2 = bytes(range(n)), bytes((255 - i) & 255 for i in range(n))
    return [one("enc(B1)", lambda c: c.enc(blk1)), one("dec(B1)", lambda c: c.dec(blk1)), one("enc(B2)", lambda c: c.enc(blk2)),
            one("dec(B2)", lambda c: c.dec(blk2)), one("enc(short)->error", lambda c: c.enc(blk1[:-1])), one("dec(long)->error", lambda c: c.dec(blk1 + b"x"))]


def mode_calls(B, ct_of):
    m1, m2 = b"attack at dawn", bytes(range(2 * B + 3))
    return [one("enc(14B)", lambda m: m.enc(m1)), one("enc(2 blocks+3)", lambda m: m.enc(m2)), one("enc(empty)", lambda m: m.enc(b"")),
            one("dec(valid)", lambda m: m.dec(ct_of(m1))), one("dec(valid 2)", lambda m: m.dec(ct_of(m2))),
            one("dec(bad length)->error", lambda m: m.dec(b"\x00" * (2 * B - 1))),
            one("dec(garbage)", lambda m: m.dec(bytes(range(3 * B))))]


def stream_calls(cls):
    v1, v2 = Bits(b"\x01" * 8, bitorder=1), Bits(bytes(range(8)), bitorder=1)

    def half(c):
        g = c.keystream(v2)
        next(g)
        return None
    return [one("enc(v1,abc)", lambda c: c.enc(v1, M1)), one("enc(v2,100B)", lambda c: c.enc(v2, M2[:100])), one("dec(v1,70B)", lambda c: c.dec(v1, M2[:70])),
            one("enc(v1,empty)", lambda c: c.enc(v1, b"")), one("enc(bad nonce)->error", lambda c: c.enc(Bits(0, 32), M1)),
            hist("half-consumed keystream(v2)", half), hist("core hash(64B) on the keyed object", lambda c: c.hash(B64))]


def _ecb_ct(cipher_factory, padcls, B):
    def f(m):
        return cmode.ECB(cipher_factory(), padcls).enc(m)
    return f


KEY16, KEY8, KEY24 = bytes(range(1, 17)), b"\x13\x34\x57\x79\x9b\xbc\xdf\xf1", bytes(range(40, 64))
IV16, IV8 = bytes(range(100, 116)), bytes(range(200, 208))
TLSH_DATA = bytes((i * i + 7 * i) & 255 for i in range(400))


def md6_factory(d=256, L=64, key=b""):
    def f():
        h = cmd.MD6(d, key, L)
        h.rounds = 2
        return h
    return f


KINDS = {}


def kind(name, factory, calls, other=None, singleton=None, expect=None):
    """expect: {call label: independent expected value} - pins what a FRESH object must return (class-level state shared between
    instances can make fresh objects wrong too, which the fresh-object oracle alone cannot see)"""
    KINDS[name] = {"factory": factory, "calls": calls, "other": other, "singleton": singleton, "expect": expect or {}}


def hexp(f):
    return {"h(abc)": f(M1), "h(200B)": f(M2), "h(empty)": f(M0)}


def cexp(enc, dec, n):
    blk1, blk2 = bytes(range(n)), bytes((255 - i) & 255 for i in range(n))
    return {"enc(B1)": enc(blk1), "dec(B1)": dec(blk1), "enc(B2)": enc(blk2), "dec(B2)": dec(blk2)}


kind("SHA1", lambda: csha.SHA1(), hash_calls(64), other=lambda: csha.SHA1(version=0), expect=hexp(lambda m: hashlib.sha1(m).digest()))
kind("SHA2-256", lambda: csha.SHA2(256), hash_calls(64), other=lambda: csha.SHA2(512, 256), expect=hexp(lambda m: hashlib.sha256(m).digest()))
kind("SHA2-224", lambda: csha.SHA2(224), hash_calls(64), other=lambda: csha.SHA2(512, 224), expect=hexp(lambda m: hashlib.sha224(m).digest()))
kind("SHA2-384", lambda: csha.SHA2(384), hash_calls(128), other=lambda: csha.SHA2(512), expect=hexp(lambda m: hashlib.sha384(m).digest()))
kind("SHA2-512/256", lambda: csha.SHA2(512, 256), hash_calls(128), other=lambda: csha.SHA2(256), expect=hexp(lambda m: hashlib.new("sha512_256", m).digest()))
kind("SHA2-512/224", lambda: csha.SHA2(512, 224), hash_calls(128), other=lambda: csha.SHA2(224), expect=hexp(lambda m: hashlib.new("sha512_224", m).digest()))
kind("MD4", lambda: cmd.MD4(), hash_calls(64), other=lambda: cmd.MD5(), expect=hexp(lambda m: RMD.digest("md4", m)))
kind("MD5", lambda: cmd.MD5(), hash_calls(64), other=lambda: cmd.MD4(), expect=hexp(lambda m: hashlib.md5(m).digest()))
kind("MD6", md6_factory(), [one("h(abc)", lambda h: h(M1)), one("h(600B)", lambda h: h(M3)), one("h(abc,bitlen=21)", lambda h: h(M1, bitlen=21)),
                             one("h(600B,bitlen=4797)", lambda h: h(M3, bitlen=4797)), one("h(abc,bitlen=100)->error", lambda h: h(M1, bitlen=100)),
                             one("h(empty)", lambda h: h(M0))], other=md6_factory(160, 0, b"key"))
kind("SHA3-256", lambda: csha.SHA3(256), [one("h(abc)", lambda h: h(M1)), one("h(200B)", lambda h: h(M2)), one("h(empty)", lambda h: h(M0)),
                                           one("Keccak call with bitlen", lambda h: ckeccak.Keccak.__call__(h, M1, bitlen=21)),
                                           hist("duplex(1 bit)", lambda k: k.duplex(b"\x01", bitlen=1, outlen=8))], other=lambda: csha.SHA3(512))
kind("Keccak", lambda: ckeccak.Keccak(b=1600, c=512, len=256), keccak_calls(), other=lambda: ckeccak.Keccak(b=200, r=40, len=160),
     expect={"k(abc)": RKE.keccak(1600, 1088, M1, 24, 256), "k(200B)": RKE.keccak(1600, 1088, M2, 1600, 256)})
kind("Keccak-small", lambda: ckeccak.Keccak(b=200, r=40, len=160), keccak_calls()[:3] + [one("k(abc,r=64)", lambda k: k(M1, r=64))] + keccak_calls()[6:],
     other=lambda: ckeccak.Keccak(b=400, r=144, len=64))
kind("Blake-256", lambda: cblake.Blake(256), hash_calls(64)[:5] + [one("h(abc,s=5)", lambda h: h(M1, s=5)), one("h(200B,s=2^100)", lambda h: h(M2, s=1 << 100))] + hash_calls(64)[5:],
     other=lambda: cblake.Blake(224), expect=hexp(lambda m: RBL.blake(256, m)))
kind("Blake-512", lambda: cblake.Blake(512), hash_calls(128)[:5] + [one("h(abc,s=5)", lambda h: h(M1, s=5))] + hash_calls(128)[5:], other=lambda: cblake.Blake(384), expect=hexp(lambda m: RBL.blake(512, m)))
kind("Blake2b", lambda: cblake.Blake2(512), blake2_calls(), other=lambda: cblake.Blake2(256), expect=hexp(lambda m: hashlib.blake2b(m).digest()))
kind("Blake2s", lambda: cblake.Blake2(256), blake2_calls(), other=lambda: cblake.Blake2(512), expect=hexp(lambda m: hashlib.blake2s(m).digest()))
kind("Skein-256", lambda: cskein.Skein(256, 256), [one("h(abc)", lambda h: h(M1)), one("h(200B)", lambda h: h(M2)), one("h(abc,bitlen=21)", lambda h: h(M1, bitlen=21)),
                                                    one("h(empty)", lambda h: h(M0)), hist("update(abc)", lambda h: h.update(M1)),
                                                    hist("update(abc,'key')", lambda h: h.update(M1, "key"))], other=lambda: cskein.Skein(512, 256),
     expect=hexp(lambda m: RSK.skein(256, 256, m)))
kind("Skein-mac-long-output", lambda: cskein.Skein(512, 1032, key=b"k1"), [one("h(abc)", lambda h: h(M1)), one("h(200B)", lambda h: h(M2)), one("h(abc,bitlen=17)", lambda h: h(M1, bitlen=17)),
                                                                            hist("update(abc)", lambda h: h.update(M1))], other=lambda: cskein.Skein(512, 1032, key=b"k2"))
_SKOPT = dict(prs=b"personal", PK=b"public key", kdf=b"kdf id", nonce=b"nonce 1")
kind("Skein-prs-PK-kdf-nonce", lambda: cskein.Skein(256, 256, **_SKOPT), [one("h(abc)", lambda h: h(M1)), one("h(200B)", lambda h: h(M2)), one("h(abc,bitlen=21)", lambda h: h(M1, bitlen=21)),
                                                                         one("h(empty)", lambda h: h(M0)), hist("update(abc)", lambda h: h.update(M1))],
     other=lambda: cskein.Skein(256, 256, prs=b"other"), expect=hexp(lambda m: RSK.skein(256, 256, m, **_SKOPT)))
kind("Skein-tree", lambda: cskein.Skein(256, 256, Yl=1, Yf=1, Ym=2), [one("h(abc)", lambda h: h(M1)), one("h(200B)", lambda h: h(M2)), one("h(empty)", lambda h: h(M0)),
                                                                       hist("update(200B)", lambda h: h.update(M2))], other=lambda: cskein.Skein(256, 256))
kind("HMAC-SHA256", lambda: chmac.HMAC(csha.SHA2(256), b"key one"), [one("mac(abc)", lambda m: m(M1)), one("mac(200B)", lambda m: m(M2)), one("mac(empty)", lambda m: m(M0)),
                                                                      hist("inner hash called directly", lambda m: m.h(M2)),
                                                                      hist("inner hash update unfinished", lambda m: (m.h.initstate(), m.h.update(B64))),
                                                                      hist("inner hash error", lambda m: m.h(M1, bitlen=100)),
                                                                      reconf("setkey(short key 2)", lambda m: m.setkey(b"second key"), lambda: chmac.HMAC(csha.SHA2(256), b"second key")),
                                                                      reconf("setkey(long key)", lambda m: m.setkey(b"L" * 150), lambda: chmac.HMAC(csha.SHA2(256), b"L" * 150))],
     other=lambda: chmac.HMAC(csha.SHA2(256), b"k" * 100),
     expect={"mac(abc)": pyhmac.new(b"key one", M1, "sha256").digest(), "mac(200B)": pyhmac.new(b"key one", M2, "sha256").digest(), "mac(empty)": pyhmac.new(b"key one", M0, "sha256").digest()})
kind("HMAC-MD5", lambda: chmac.HMAC(cmd.MD5(), b"k" * 70), [one("mac(abc)", lambda m: m(M1)), one("mac(200B)", lambda m: m(M2)),
                                                              hist("inner hash update unfinished", lambda m: (m.h.initstate(), m.h.update(B64)))],
     other=lambda: chmac.HMAC(cmd.MD5(), b"other"))
kind("TLSH", lambda: ctlsh.TLSH(128), [one("t(400B)", lambda t: t(TLSH_DATA)), one("t(60B,force)", lambda t: t(TLSH_DATA[:60], True)), one("t(60B)->None", lambda t: t(TLSH_DATA[:60])),
                                        one("t(3B)->None", lambda t: t(M1)), one("t(uniform)->None", lambda t: t(b"a" * 300)),
                                        hist("update(400B) unfinished", lambda t: t.update(TLSH_DATA)), hist("final(300B)", lambda t: t.final(TLSH_DATA[:300])),
                                        hist("from_hash(garbage)", lambda t: t.from_hash(bytes(range(35)))), hist("from_hash(bad length)->error", lambda t: t.from_hash(b"xyz"))],
     other=lambda: ctlsh.TLSH(256, 4, 3))
kind("Nilsimsa", lambda: cnil.Nilsimsa(), [one("n(abc)", lambda n: n(M1)), one("n(200B)", lambda n: n(M2)), one("n(empty)", lambda n: n(M0)),
                                            hist("update(xyz) unfinished", lambda n: n.update(b"xyz")), hist("update(200B);digest()", lambda n: n.update(M2).digest())],
     other=lambda: cnil.Nilsimsa(17))
# keys that are zero-extensions of one another have the same integer value: any table keyed by the value alone must keep them apart
KEY16Z8, KEY16Z16 = KEY16 + bytes(8), KEY16 + bytes(16)
kind("AES", lambda: caes.AES(KEY16), cipher_calls(16), other=lambda: caes.AES(KEY16Z16), expect=cexp(lambda b: RAES.enc(KEY16, b), lambda b: RAES.dec(KEY16, b), 16))
kind("AES-192-zero-extended-twin-key", lambda: caes.AES(KEY16Z8), cipher_calls(16), other=lambda: caes.AES(KEY16),
     expect=cexp(lambda b: RAES.enc(KEY16Z8, b), lambda b: RAES.dec(KEY16Z8, b), 16))
kind("AES-256-zero-extended-twin-key", lambda: caes.AES(KEY16Z16), cipher_calls(16)[:4], other=lambda: caes.AES(KEY16Z8),
     expect=cexp(lambda b: RAES.enc(KEY16Z16, b), lambda b: RAES.dec(KEY16Z16, b), 16))
# keys that differ only in the top bit / only in the parity bit of every byte: any table keyed by a "normalised" key must keep them apart
KEY8M, KEY8P = bytes(x ^ 0x80 for x in KEY8), bytes(x ^ 0x01 for x in KEY8)
kind("DES", lambda: cdes.DES(KEY8), cipher_calls(8), other=lambda: cdes.DES(KEY8M), expect=cexp(lambda b: RDES.enc(KEY8, b), lambda b: RDES.dec(KEY8, b), 8))
kind("DES-msb-twin-key", lambda: cdes.DES(KEY8M), cipher_calls(8), other=lambda: cdes.DES(KEY8), expect=cexp(lambda b: RDES.enc(KEY8M, b), lambda b: RDES.dec(KEY8M, b), 8))
kind("DES-parity-twin-key", lambda: cdes.DES(KEY8P), cipher_calls(8)[:4], other=lambda: cdes.DES(KEY8M), expect=cexp(lambda b: RDES.enc(KEY8P, b), lambda b: RDES.dec(KEY8P, b), 8))
kind("TDEA", lambda: cdes.TDEA(KEY24), cipher_calls(8), other=lambda: cdes.TDEA(KEY8), expect=cexp(lambda b: RDES.tdea_enc(KEY24[:8], KEY24[8:16], KEY24[16:], b), lambda b: RDES.tdea_dec(KEY24[:8], KEY24[8:16], KEY24[16:], b), 8))
kind("Serpent", lambda: cser.Serpent(KEY16), cipher_calls(16), other=lambda: cser.Serpent(KEY24), expect=cexp(lambda b: RSER.enc(KEY16, b), lambda b: RSER.dec(KEY16, b), 16))
kind("Threefish-256", lambda: ctf.Threefish(B32, B16), cipher_calls(32), other=lambda: ctf.Threefish(B32, IV16), expect=cexp(lambda b: RTF.tf_enc(B32, B16, b), lambda b: RTF.tf_dec(B32, B16, b), 32))
kind("Threefish-512", lambda: ctf.Threefish(B64, B16), cipher_calls(64), other=lambda: ctf.Threefish(B64[::-1], B16))
kind("ECB-AES-pkcs7", lambda: cmode.ECB(caes.AES(KEY16)), mode_calls(16, lambda m: cmode.ECB(caes.AES(KEY16)).enc(m)), other=lambda: cmode.ECB(caes.AES(KEY16), cpad.X923))
kind("ECB-DES-bitpadding", lambda: cmode.ECB(cdes.DES(KEY8), cpad.bitpadding), mode_calls(8, lambda m: cmode.ECB(cdes.DES(KEY8), cpad.bitpadding).enc(m)),
     other=lambda: cmode.ECB(cdes.DES(KEY8), cpad.Nullpadding))
kind("ECB-AES-nopadding", lambda: cmode.ECB(caes.AES(KEY16), cpad.nopadding),
     [one("enc(16B)", lambda m: m.enc(B16)), one("enc(17B)->error", lambda m: m.enc(B16 + b"x")), one("enc(32B)", lambda m: m.enc(B32)),
      one("dec(16B)", lambda m: m.dec(B16)), one("enc(empty)", lambda m: m.enc(b"")), one("dec(15B)->error", lambda m: m.dec(B16[:15]))],
     other=lambda: cmode.ECB(caes.AES(KEY16)), expect={"enc(16B)": RAES.enc(KEY16, B16), "enc(32B)": RAES.enc(KEY16, B32[:16]) + RAES.enc(KEY16, B32[16:])})
kind("CBC-DES-nopadding", lambda: cmode.CBC(cdes.DES(KEY8), IV8, cpad.nopadding),
     [one("enc(8B)", lambda m: m.enc(B8)), one("enc(9B)->error", lambda m: m.enc(B8 + b"x")), one("enc(24B)", lambda m: m.enc(B32[:24])),
      one("dec(16B)", lambda m: m.dec(B16)), one("enc(3B)->error", lambda m: m.enc(b"abc"))],
     other=lambda: cmode.CBC(cdes.DES(KEY8), IV8))
kind("CBC-AES-pkcs7", lambda: cmode.CBC(caes.AES(KEY16), IV16), mode_calls(16, lambda m: cmode.CBC(caes.AES(KEY16), IV16).enc(m)), other=lambda: cmode.CBC(caes.AES(KEY16), B16))
kind("CBC-TDEA-x923", lambda: cmode.CBC(cdes.TDEA(KEY24), IV8, cpad.X923), mode_calls(8, lambda m: cmode.CBC(cdes.TDEA(KEY24), IV8, cpad.X923).enc(m)),
     other=lambda: cmode.CBC(cdes.TDEA(KEY24), IV8))
kind("CTR-AES", lambda: cmode.CTR(caes.AES(KEY16), IV16), mode_calls(16, lambda m: cmode.CTR(caes.AES(KEY16), IV16).enc(m))[:5] + [one("enc(40B)", lambda m: m.enc(M2[:40]))],
     other=lambda: cmode.CTR(caes.AES(KEY16), cmode.DefaultCounter(16).setup(B8, b"\xff" * 8)))
kind("CTR-AES-counter-near-wrap", lambda: cmode.CTR(caes.AES(KEY16), cmode.DefaultCounter(16).setup(B8, ((1 << 64) - 2).to_bytes(8, "big"))),
     [one("enc(40B) wraps", lambda m: m.enc(M2[:40])), one("enc(5B)", lambda m: m.enc(M2[:5])), one("dec(70B) wraps", lambda m: m.dec(M2[:70])), one("enc(16B)", lambda m: m.enc(B16))],
     other=lambda: cmode.CTR(cdes.DES(KEY8), IV8[:4] + b"\xff\xff\xff\xfe"),
     expect={"enc(5B)": RMO.ctr(lambda b: RAES.enc(KEY16, b), 16, B8, ((1 << 64) - 2).to_bytes(8, "big"), M2[:5]),
             "enc(40B) wraps": RMO.ctr(lambda b: RAES.enc(KEY16, b), 16, B8, ((1 << 64) - 2).to_bytes(8, "big"), M2[:40])})
kind("CTS_CBC-DES", lambda: cmode.CTS_CBC(cdes.DES(KEY8), IV8), [one("enc(19B)", lambda m: m.enc(M2[:19])), one("enc(16B)", lambda m: m.enc(M2[:16])),
                                                                  one("dec(27B)", lambda m: m.dec(M2[:27])), one("enc(8B)", lambda m: m.enc(M2[:8]))],
     other=lambda: cmode.CTS_ECB(cdes.DES(KEY8)))
kind("Salsa20", lambda: csalsa.Salsa20(Bits(B32, bitorder=1), 8), stream_calls(csalsa.Salsa20), other=lambda: csalsa.Salsa20(Bits(B16, bitorder=1), 8))
kind("Chacha", lambda: cchacha.Chacha(Bits(B32, bitorder=1), 8), stream_calls(cchacha.Chacha), other=lambda: cchacha.Chacha(Bits(B16, bitorder=1), 12))
# module-level shared instances: the object under test IS the singleton; "fresh" is an equally configured new object
kind("singleton keccak_256", lambda: ckeccak.Keccak(b=1600, c=512, len=256), keccak_calls(), other=lambda: ckeccak.keccak_512, singleton=(ckeccak, "keccak_256"))
kind("singleton keccak_224", lambda: ckeccak.Keccak(b=1600, c=448, len=224), keccak_calls()[:5], other=lambda: ckeccak.keccak_384, singleton=(ckeccak, "keccak_224"))
kind("singleton blake256", lambda: cblake.Blake(256), KINDS["Blake-256"]["calls"], other=lambda: cblake.blake224, singleton=(cblake, "blake256"))
kind("singleton blake512", lambda: cblake.Blake(512), KINDS["Blake-512"]["calls"], other=lambda: cblake.blake384, singleton=(cblake, "blake512"))
kind("singleton blake2b", lambda: cblake.Blake2(512), blake2_calls(), other=lambda: cblake.blake2s, singleton=(cblake, "blake2b"))
kind("singleton blake2s", lambda: cblake.Blake2(256), blake2_calls(), other=lambda: cblake.blake2b, singleton=(cblake, "blake2s"))
kind("singleton tlsh", lambda: ctlsh.TLSH(128), KINDS["TLSH"]["calls"], other=lambda: ctlsh.TLSH(48), singleton=(ctlsh, "tlsh"))
# CRC: module functions over module-level tables; the "fresh" outcome is the one recorded at import time
_CRC_CALLS = [one("crc32(abc)", lambda m: m.crc32(M1)), one("crc32(200B)", lambda m: m.crc32(M2)), one("crc32_fix(200B,5)", lambda m: m.crc32_fix(M2, 5)),
              one("crc32_fix_pos(200B,7,'0x10')", lambda m: m.crc32_fix_pos(M2, 7, 0x10)), one("crc32(str)->error", lambda m: m.crc32("text")),
              one("generic crc width 16", lambda m: m.crc(M2, m.crc_table(Bits(0xA001, 16)), 0xffff, 0)),
              one("crc32_back_pos", lambda m: m.crc32_back_pos(M2, 3, 0x12345678))]
kind("crc", lambda: ccrc, _CRC_CALLS)


def outcome(fn, obj):
    import io, contextlib
    with contextlib.redirect_stdout(io.StringIO()):      # crc helpers print diagnostics
        st_, r = attempt(fn, obj)
    if st_ == "exc":
        return ("exc", type(r).__name__)
    if isinstance(r, (bytes, bytearray)):
        return ("ok", bytes(r))
    if r is None or isinstance(r, (int, bool)):
        return ("ok", r)
    return ("ok", repr(r)[:200])


_FIRST = {}      # (kind, target, call index) -> outcome of the first fresh computation in this process
for _i, _c in enumerate(_CRC_CALLS):
    _FIRST[("crc", 0, _i)] = outcome(_c.fn, ccrc)


def check_history(c):
    k = KINDS[c["kind"]]
    calls = k["calls"]
    saved = None
    if k["singleton"]:
        mod, attr = k["singleton"]
        saved = copy.deepcopy(getattr(mod, attr))
        main = getattr(mod, attr)
    else:
        main = guard(k["factory"])
    objs = {0: main}
    factories = {0: k["factory"], 1: k["factory"]}      # what "equally configured" means per target (changes with a reconfiguring call)
    reconf_t = set()
    try:
        prev_labels = []
        for step, (tgt, ci) in enumerate(c["seq"]):
            ci %= len(calls)
            if tgt == 2 and not k["other"]:
                tgt = 1
            if tgt not in objs:
                objs[tgt] = guard(k["factory"]) if tgt == 1 else guard(k["other"])
            call = calls[ci]
            if tgt == 2:
                # a sibling with another configuration: its calls are history only
                attempt(call.fn, objs[tgt])
                prev_labels.append("other:" + call.label)
                continue
            got = outcome(call.fn, objs[tgt])
            if call.newfactory is not None:
                factories[tgt] = call.newfactory
                reconf_t.add(tgt)
            if call.oneshot:
                fresh = factories[tgt]() if c["kind"] != "crc" else ccrc
                exp = outcome(call.fn, fresh) if c["kind"] != "crc" else _FIRST[("crc", 0, ci)]
                pinned = k["expect"].get(call.label) if tgt not in reconf_t else None
                if tgt in reconf_t:
                    if got != exp:
                        raise Violation("%s:after-reconfiguration:differs-from-fresh-object" % family(c["kind"]),
                                        {"step": step, "call": call.label, "outcome": exp}, {"step": step, "call": call.label, "outcome": got},
                                        "history: " + " ; ".join(prev_labels))
                    prev_labels.append(call.label)
                    continue
                if pinned is not None and exp != ("ok", pinned):
                    raise Violation("%s:fresh-object-differs-from-independent-reference" % family(c["kind"]), ("ok", pinned), exp,
                                    "class-level state shared between instances? history: " + " ; ".join(prev_labels))
                key = (c["kind"], 0, ci)
                first = _FIRST.setdefault(key, exp)
                if exp != first:
                    raise Violation("%s:fresh-object-result-changed-during-process" % family(c["kind"]), first, exp, call.label)
                if got != exp:
                    raise Violation("%s:%s:differs-from-fresh-object" % (family(c["kind"]), cause(call, prev_labels)),
                                    {"step": step, "call": call.label, "outcome": exp}, {"step": step, "call": call.label, "outcome": got},
                                    "history: " + " ; ".join(prev_labels))
            prev_labels.append(("sib:" if tgt == 1 else "") + call.label)
    finally:
        if saved is not None:
            setattr(mod, attr, saved)


def family(name):
    return name.replace("singleton ", "")


def cause(call, prev):
    """coarse class of the history that precedes the failing one-shot call (root-cause hint in the signature)"""
    if not prev:
        return "first-call"
    last = prev[-1]
    if "->error" in last:
        return "after-error-call"
    if "unfinished" in last or "half-consumed" in last or last.startswith("update") or "duplex" in last or "final(" in last or "initstate" in last:
        return "after-incremental-call"
    if last.startswith("sib:") or last.startswith("other:"):
        return "after-sibling-call"
    return "after-oneshot-call"


def classify(c):
    k = KINDS[c["kind"]]
    calls = k["calls"]
    lab = [c["kind"], "len=%d" % min(8, len(c["seq"]))]
    cs = [calls[ci % len(calls)] for _, ci in c["seq"]]
    if any("->error" in x.label for x in cs):
        lab.append("has error call")
    if any(not x.oneshot for x in cs):
        lab.append("has incremental/history-only call")
    if any(t == 1 for t, _ in c["seq"]):
        lab.append("has same-config sibling")
    if any(t == 2 for t, _ in c["seq"]):
        lab.append("has other-config sibling")
    if k["singleton"]:
        lab.append("module singleton")
    return tuple(lab)


def nontriv(c):
    calls = KINDS[c["kind"]]["calls"]
    seq = [(t, ci % len(calls)) for t, ci in c["seq"]]
    for i, (t, ci) in enumerate(seq):
        if t != 2 and calls[ci].oneshot and any((t2, c2) != (t, ci) for t2, c2 in seq[:i]):
            return True
    return False


def enum_cases(tier, rnd):
    maxlen = 2 if tier == "quick" else 3
    for name, k in KINDS.items():
        n = len(k["calls"])
        for L in range(1, maxlen + 1):
            for seq in itertools.product(range(n), repeat=L):
                if not k["calls"][seq[-1]].oneshot:
                    continue        # a sequence ending in a history-only call checks nothing new
                yield {"kind": name, "seq": tuple((0, ci) for ci in seq)}
        if maxlen < 3:
            # "call, disturb, call": every (one of the first two one-shot calls, history-only / reconfiguring call, one-shot call) triple
            ones = [i for i, cl in enumerate(k["calls"]) if cl.oneshot]
            hists = [i for i, cl in enumerate(k["calls"]) if not cl.oneshot]
            for a in ones[:2]:
                for h in hists:
                    for b in ones:
                        yield {"kind": name, "seq": ((0, a), (0, h), (0, b))}


def sampled_strategy(tier):
    maxlen = 8 if tier == "quick" else 12
    step = st.tuples(gen.pick((4, st.just(0)), (2, st.just(1)), (1, st.just(2))), gen.uint(0, 11))
    return st.builds(lambda name, seq: {"kind": name, "seq": tuple(seq)}, st.sampled_from(sorted(KINDS)), st.lists(step, min_size=3, max_size=maxlen))


FACETS = [
    Facet("sequences-exhaustive", check_history, cases=enum_cases, exhaustive=True, distinct=True, nontrivial=nontriv, classify=classify,
          shards={"quick": 16, "thorough": 32},
          rule="for each of the %d object kinds (hashes, sponge, MD6, BLAKE/BLAKE2, Skein, HMAC, TLSH, Nilsimsa, block ciphers, ECB/CBC/CTR/CTS, Salsa20/ChaCha, "
               "the module singletons keccak_*/blake*/blake2b/blake2s/tlsh, CRC functions): EVERY sequence of length <= 2 (<= 3 thorough) over its call "
               "alphabet, plus in the quick tier every (call, history-only or reconfiguring call, call) triple, (one-shot calls with other messages/options, calls that raise, unfinished incremental calls) ending in a one-shot call" % len(KINDS)),
    Facet("sequences-sampled", check_history, strategy=sampled_strategy, budget={"quick": 2000, "thorough": 60000}, shards={"quick": 16, "thorough": 32},
          nontrivial=nontriv, classify=classify,
          rule="sequences of 3..8 (12) calls, each on the instance under test, on a sibling of the same configuration or on a sibling / module "
               "singleton of another configuration"),
]
WEIGHT = {"sequences-exhaustive": 5, "sequences-sampled": 5}
