"""C11 - BLAKE and BLAKE2 digests equal their specifications for all inputs, parameters.
Oracles: ref/blake.py (submission vectors), hashlib.blake2b/blake2s, ref/blake2.py (resumable, validated against hashlib)."""
import hashlib
from hypothesis import strategies as st
from vlib.core import Facet, Violation, ALLOWED, guard, attempt, eq, expect
from vlib import gen
from ref import blake as RB, blake2 as R2, padref

from crysp.bits import Bits
from crysp.poly import Poly
from crysp.blake import Blake, Blake2, blake224, blake256, blake384, blake512, blake2b, blake2s

RULE = ("Case = (function, message, bit length / parameters).  Digest and digest length compared with the reference.  Digest equality "
        "on multi-block messages decides the per-block counter and the final flag.  Non-trivial = |M| > one block or a non-default parameter.")
ASSUMPTIONS = ["hashlib implements BLAKE2 per RFC 7693; ref.blake validated by the 8 submission vectors",
               "BLAKE salt given as an int: the four salt words are its big-endian w-bit digits",
               "BLAKE2 salt/personalisation are empty or full length; the key block is prepended by the caller (crysp takes only keylen)",
               "high counter words are reached from a preset chaining state through the public update() API"]
SELFTESTS = [("blake", RB.selftest), ("blake2", R2.selftest), ("padref", padref.selftest)]

SINGLETON = {224: blake224, 256: blake256, 384: blake384, 512: blake512}


def bb(n):
    return 128 if n > 256 else 64


# ---------------------------------------------------------------------------
def check_blake(c):
    n, M, L, salt = c["n"], c["M"], c["L"], c["salt"]
    obj = SINGLETON[n] if c.get("singleton") else guard(Blake, n)
    kw = {}
    if salt:
        kw["s"] = salt
    if L is not None:
        kw["bitlen"] = L
    got = guard(obj, M, **kw)
    exp = RB.blake(n, M, L, salt)
    expect(isinstance(got, bytes), "blake:type", "bytes", type(got).__name__)
    eq(len(got), n // 8, "blake:digest-length")
    if got != exp:
        raise Violation("blake:digest!=submission", exp, got)


def salts(n, rnd):
    w = 64 if n > 256 else 32
    return [0, 1, (1 << (4 * w)) - 1, rnd.getrandbits(4 * w)]


def blake_sweep(tier, rnd):
    for n in (224, 256, 384, 512):
        B = bb(n)
        w8 = (64 if n > 256 else 32) // 4         # bytes of the length field
        top = 3 * B + 1 if tier == "quick" else 4 * B + 1
        ss = salts(n, rnd)
        for ln in range(top + 1):
            M = bytes(rnd.randrange(256) for _ in range(ln))
            yield {"n": n, "M": M, "L": None, "salt": ss[ln % 4] if ln % 3 == 0 else 0, "singleton": ln % 5 == 0}
            r = ln % B
            if ln and (r in (0, 1, B - 1) or abs(r - (B - w8 - 1)) <= 2):
                for d in range(0, 8):
                    yield {"n": n, "M": M, "L": 8 * ln - d, "salt": ss[d % 4]}
            elif ln:
                yield {"n": n, "M": M, "L": 8 * ln - rnd.randrange(1, 8), "salt": 0}


def blake_strategy(tier):
    def for_n(n):
        B = bb(n)
        w = 64 if n > 256 else 32
        ln = gen.length(B, 4, special=[B - w // 4 - 2, B - w // 4 - 1, B - w // 4, B - w // 4 + 1])
        salt = gen.pick((1, st.just(0)), (2, gen.nbits(4 * w)))

        def build(M, lm, d, s, extra, sg):
            c = {"n": n, "M": M, "L": None, "salt": s, "singleton": sg}
            if lm and M:
                c["L"] = 8 * len(M) - d
                if lm == 2:
                    c["M"] = M + extra
            return c
        return st.builds(build, gen.blob_of(ln), gen.uint(0, 2), gen.uint(0, 7), salt, gen.blob_of(gen.uint(1, 30)), st.booleans())
    return st.sampled_from([224, 256, 384, 512]).flatmap(for_n)


def classify_blake(c):
    n = c["n"]
    B = bb(n)
    Lb = 8 * len(c["M"]) if c["L"] is None else c["L"]
    lab = ["blake%d" % n, "blocks=%d" % min(4, Lb // (8 * B)), "salt" if c["salt"] else "no salt"]
    if c["L"] is not None:
        lab.append("L%8!=0" if c["L"] % 8 else "L%8==0")
    if Lb % (8 * B) == 0 and Lb:
        lab.append("exact block multiple")
    return tuple(lab)


# ---------------------------------------------------------------------------
def b2_ref(c):
    which, M, p = c["f"], c["M"], c["params"]
    f = hashlib.blake2b if which == "blake2b" else hashlib.blake2s
    w = 64 if which == "blake2b" else 32
    kw = {"digest_size": p.get("outlen", w)}
    for a, b in (("salt", "salt"), ("pers", "person"), ("fanout", "fanout"), ("depth", "depth"), ("leafl", "leaf_size"),
                 ("noffset", "node_offset"), ("ndepth", "node_depth"), ("inner", "inner_size")):
        if a in p:
            kw[b] = p[a]
    if c.get("key"):
        kw["key"] = c["key"]
    return f(M, **kw).digest()


def check_blake2(c):
    which, M, p = c["f"], c["M"], dict(c["params"])
    w = 64 if which == "blake2b" else 32
    obj = (blake2b if which == "blake2b" else blake2s) if c.get("singleton") else guard(Blake2, 512 if which == "blake2b" else 256)
    data = M
    if c.get("key"):
        p["keylen"] = len(c["key"])
        data = c["key"].ljust(2 * w, b"\0") + M
    got = guard(obj, data, **p)
    exp = b2_ref(c)
    expect(isinstance(got, bytes), "blake2:type", "bytes", type(got).__name__)
    eq(len(got), c["params"].get("outlen", w), "blake2:digest-length")
    if got != exp:
        raise Violation("blake2:digest!=rfc7693" + (":params" if c["params"] or c.get("key") else ""), exp, got)
    if c.get("singleton"):
        # leave the shared module-level object as we found it: default parameters
        guard(obj, b"")


def blake2_sweep(tier, rnd):
    for which in ("blake2b", "blake2s"):
        B = 128 if which == "blake2b" else 64
        top = 3 * B + 1 if tier == "quick" else 4 * B + 1
        for ln in range(top + 1):
            yield {"f": which, "M": bytes(rnd.randrange(256) for _ in range(ln)), "params": {}, "singleton": ln % 4 == 0}


def blake2_strategy(tier):
    def for_f(which):
        w = 64 if which == "blake2b" else 32
        l = w // 4
        B = 2 * w

        def opt(s):
            return gen.pick((1, st.none()), (1, s))
        fields = {
            "outlen": opt(gen.pick((1, st.sampled_from([1, w // 2, w - 1, w])), (1, gen.uint(1, w)))),
            "salt": opt(gen.blob(l)), "pers": opt(gen.blob(l)),
            "fanout": opt(gen.pick((1, st.sampled_from([0, 1, 2, 255])), (1, gen.uint(0, 255)))),
            "depth": opt(gen.pick((1, st.sampled_from([1, 2, 255])), (1, gen.uint(1, 255)))),
            "leafl": opt(gen.pick((1, st.sampled_from([0, 1, (1 << 32) - 1, 1 << 31])), (1, gen.nbits(32)))),
            "noffset": opt(gen.pick((1, st.sampled_from([0, 1, (1 << (w + 16 if w == 32 else 64)) - 1, 1 << 32, (1 << 32) - 1])),
                                    (1, gen.nbits(64 if w == 64 else 48)))),
            "ndepth": opt(gen.uint(0, 255)), "inner": opt(gen.uint(0, w)),
        }
        key = gen.pick((2, st.just(b"")), (1, gen.blob_of(gen.pick((1, st.sampled_from([1, w // 2, w])), (1, gen.uint(1, w))))))

        def build(M, k, sg, **f):
            return {"f": which, "M": M, "key": k, "singleton": sg, "params": {a: b for a, b in f.items() if b is not None}}
        return st.builds(build, gen.blob_of(gen.length(B, 3)), key, st.booleans(), **fields)
    return st.sampled_from(["blake2b", "blake2s"]).flatmap(for_f)


def classify_b2(c):
    B = 128 if c["f"] == "blake2b" else 64
    n = len(c["M"])
    return (c["f"], "blocks=%d" % min(4, n // B), "exact block multiple" if n and n % B == 0 else "partial/empty",
            "keyed" if c.get("key") else "unkeyed") + tuple(sorted(c["params"]))


# ---------------------------------------------------------------------------
# counters crossing word boundaries, from a preset midstate
def other_digest(kind, data):
    """while one object is in mid-stream, ANOTHER object of the same class and size computes a whole digest"""
    if kind in ("blake2b", "blake2s"):
        got, exp = guard(guard(Blake2, 512 if kind == "blake2b" else 256), data), b2_ref({"f": kind, "M": data, "params": {}})
    else:
        got, exp = guard(guard(Blake, int(kind[5:])), data), RB.blake(int(kind[5:]), data, None, 0)
    if got != exp:
        raise Violation("%s:preset-counter:other-object-digest!=reference" % ("blake2" if kind.startswith("blake2") else "blake"), exp, got)


def check_preset(c):
    kind, tail, count0 = c["kind"], c["tail"], c["count0"]
    if kind in ("blake2b", "blake2s"):
        w = 64 if kind == "blake2b" else 32
        obj = guard(Blake2, 512 if kind == "blake2b" else 256)
        guard(obj.initstate)
        obj.H = Poly(list(c["H"]), w)
        obj.padmethod.bitcnt = 8 * count0
        if c.get("other"):
            other_digest(kind, tail)
        got = guard(obj.update, tail, padding=True)
        exp = R2.blake2(w, tail, None, list(c["H"]), count0)
        if got != exp:
            raise Violation("blake2:preset-counter:digest!=reference", exp, got)
    else:
        n = int(kind[5:])
        w = 64 if n > 256 else 32
        obj = guard(Blake, n)
        guard(obj.initstate, salt=c["salt"])
        obj.H = Poly(list(c["H"]), w)
        obj.padmethod.bitcnt = count0
        if c.get("other"):
            other_digest(kind, tail)
        got = guard(obj.update, tail, padding=True)
        exp = RB.blake(n, tail, None, c["salt"], list(c["H"]), count0)
        if got != exp:
            raise Violation("blake:preset-counter:digest!=reference", exp, got)


def preset_strategy(tier):
    def for_kind(kind):
        if kind in ("blake2b", "blake2s"):
            w = 64 if kind == "blake2b" else 32
            unit = 2 * w                    # bytes per block; counter counts bytes
            cs = 2 * w
        else:
            n = int(kind[5:])
            w = 64 if n > 256 else 32
            unit = 16 * w                   # bits per block; counter counts bits
            cs = 2 * w
        B = 2 * w
        low = st.sampled_from([1, 1, 2, 3, 0]).map(lambda j: (1 << w) - j * unit)
        top = st.sampled_from([2, 3, 4, 5]).map(lambda j: (1 << cs) - j * unit)
        big = gen.nbits(cs - 12).map(lambda v: v * unit % (1 << cs))
        small = gen.uint(0, 4).map(lambda j: j * unit)
        cnt = gen.pick((4, low), (2, big), (1, small), (2, top))

        def build(H, c0, tail, salt):
            room = ((1 << cs) - c0) // (1 if kind in ("blake2b", "blake2s") else 8) - 1
            tail = tail[:max(0, room)]
            if kind in ("blake2b", "blake2s") and not tail:
                tail = b"\x01"      # BLAKE2 cannot finalize on an empty piece after earlier blocks (known finding K01 of C14)
            return {"kind": kind, "H": tuple(H), "count0": c0, "tail": tail, "salt": 0 if kind in ("blake2b", "blake2s") else salt,
                    "other": H[0] % 2 == 1}
        return st.builds(build, st.lists(gen.nbits(w), min_size=8, max_size=8), cnt, gen.blob_of(gen.length(B, 3, special=[B - w // 4 - 1])), gen.nbits(4 * w))
    return st.sampled_from(["blake224", "blake256", "blake384", "blake512", "blake2b", "blake2s"]).flatmap(for_kind)


def classify_preset(c):
    kind = c["kind"]
    if kind in ("blake2b", "blake2s"):
        w = 64 if kind == "blake2b" else 32
        tot = c["count0"] + len(c["tail"])
    else:
        w = 64 if int(kind[5:]) > 256 else 32
        tot = c["count0"] + 8 * len(c["tail"])
    lab = [kind, "another object hashes in between" if c.get("other") else "undisturbed"]
    if c["count0"] < (1 << w) <= tot:
        lab.append("crosses low word during tail")
    if tot >= (1 << w):
        lab.append("high counter word non-zero")
    return tuple(lab)


# ---------------------------------------------------------------------------
# one object, several digests with changing parameters
def disturb(obj, call, B):
    """streaming or refused use of the object between two one-shot digests: never judged itself"""
    how, data = call[1], call[2]
    if how == "update-blocks":
        attempt(obj.update, (data * (B // max(1, len(data)) + 1))[:B] if data else b"")
    elif how == "update-final":
        attempt(obj.update, data, padding=True)
    elif how == "stream-start":
        # a new stream is opened properly (initstate) and abandoned after one whole block
        attempt(obj.initstate)
        attempt(obj.update, (data * (B // max(1, len(data)) + 1))[:B] if data else bytes(B))
    elif how == "refused":
        attempt(obj, data, bitlen=8 * len(data) + 5)      # BLAKE: over-long bit length; BLAKE2: unknown keyword


def check_history(c):
    kind = c["kind"]
    sib = sibref = None
    if kind == "blake":
        obj = guard(Blake, c["n"])
        if c.get("sib"):
            sn = {224: 256, 256: 512, 384: 224, 512: 384}[c["n"]]
            sib, sibref = guard(Blake, sn), (lambda m: RB.blake(sn, m, None, 0))
        for i, call in enumerate(c["calls"]):
            if sib is not None and i % 2 == 1:
                sm = bytes(range(i, i + 70))
                if guard(sib, sm) != sibref(sm):
                    raise Violation("blake:reused-object:sibling-object!=submission", None, None)
            if call[0] == "disturb":
                disturb(obj, call, bb(c["n"]))
                continue
            M, salt, L = call
            kw = {}
            if salt:
                kw["s"] = salt
            if L is not None:
                kw["bitlen"] = L
            got = guard(obj, M, **kw)
            exp = RB.blake(c["n"], M, L, salt)
            if got != exp:
                raise Violation("blake:reused-object:digest!=submission", {"call": i, "d": exp}, {"call": i, "d": got})
    else:
        w = 64 if kind == "blake2b" else 32
        obj = guard(Blake2, 512 if kind == "blake2b" else 256)
        if c.get("sib"):
            sk = "blake2s" if kind == "blake2b" else "blake2b"
            sib, sibref = guard(Blake2, 512 if sk == "blake2b" else 256), (lambda m: b2_ref({"f": sk, "M": m, "params": {}}))
        for i, call in enumerate(c["calls"]):
            if sib is not None and i % 2 == 1:
                sm = bytes(range(i, i + 70))
                if guard(sib, sm) != sibref(sm):
                    raise Violation("blake2:reused-object:sibling-object!=rfc7693", None, None)
            if call[0] == "disturb":
                disturb(obj, call, 2 * w)
                continue
            M, p = call
            got = guard(obj, M, **p)
            exp = b2_ref({"f": kind, "M": M, "params": p})
            if got != exp:
                raise Violation("blake2:reused-object:digest!=rfc7693", {"call": i, "d": exp}, {"call": i, "d": got})


def history_strategy(tier):
    dist = st.tuples(st.just("disturb"), st.sampled_from(["update-blocks", "stream-start", "stream-start", "update-final", "refused"]), gen.blob_of(gen.uint(0, 40)))
    def blake_h(n):
        w = 64 if n > 256 else 32
        call = st.tuples(gen.blob_of(gen.uint(0, 2 * bb(n) + 3)), gen.pick((1, st.just(0)), (1, gen.nbits(4 * w))), gen.uint(0, 9)).map(
            lambda t: (t[0], t[1], None if t[2] > 6 or not t[0] else 8 * len(t[0]) - t[2]))
        return st.lists(gen.pick((4, call), (1, dist)), min_size=2, max_size=4).map(
            lambda l: {"kind": "blake", "n": n, "sib": len(l[0][0]) % 2, "calls": tuple(l) + ((b"after", 0, None),) * (l[-1][0] == "disturb")})

    def blake2_h(which):
        w = 64 if which == "blake2b" else 32
        l = w // 4
        par = st.fixed_dictionaries({}, optional={"outlen": gen.uint(1, w), "salt": gen.blob(l), "pers": gen.blob(l), "fanout": gen.uint(0, 255),
                                                  "depth": gen.uint(1, 255), "inner": gen.uint(0, w), "ndepth": gen.uint(0, 255)})
        call = st.tuples(gen.blob_of(gen.uint(0, 5 * w)), par)
        return st.lists(gen.pick((4, call), (1, dist)), min_size=2, max_size=4).map(
            lambda l_: {"kind": which, "sib": len(l_[0][0]) % 2, "calls": tuple(l_) + ((b"after", {}),) * (l_[-1][0] == "disturb")})
    return gen.pick((1, st.sampled_from([224, 256, 384, 512]).flatmap(blake_h)), (1, st.sampled_from(["blake2b", "blake2s"]).flatmap(blake2_h)))


FACETS = [
    Facet("blake-length-sweep", check_blake, cases=blake_sweep, nontrivial=lambda c: len(c["M"]) > bb(c["n"]) or c["salt"] != 0,
          classify=classify_blake, shards={"quick": 16, "thorough": 32},
          rule="BLAKE-224/256/384/512 x EVERY byte length 0..3B+1 (0..4B+1 thorough), salts cycling through {0,1,all-ones,random}; every L%8 at "
               "the block and spill boundaries, one random residue elsewhere; module singletons on every 5th"),
    Facet("blake-random", check_blake, strategy=blake_strategy, budget={"quick": 2500, "thorough": 40000}, shards={"quick": 16, "thorough": 32},
          nontrivial=lambda c: len(c["M"]) > bb(c["n"]) or c["salt"] != 0, classify=classify_blake,
          rule="0..4 blocks + boundary residues, random salts, L absent / within the last byte / prefix of a longer string"),
    Facet("blake2-length-sweep", check_blake2, cases=blake2_sweep, nontrivial=lambda c: len(c["M"]) > (128 if c["f"] == "blake2b" else 64),
          classify=classify_b2, shards={"quick": 16, "thorough": 32},
          rule="BLAKE2b/2s x EVERY byte length 0..3B+1 (0..4B+1 thorough), default parameters, against hashlib"),
    Facet("blake2-parameters", check_blake2, strategy=blake2_strategy, budget={"quick": 4000, "thorough": 60000}, shards={"quick": 16, "thorough": 32},
          nontrivial=lambda c: bool(c["params"]) or bool(c.get("key")) or len(c["M"]) > (128 if c["f"] == "blake2b" else 64), classify=classify_b2,
          rule="digest length 1..32/64, salt, personalisation, fanout, depth, leaf length, node offset (48/64-bit edge values), node depth, inner "
               "length, key (padded key block prepended), messages 0..3 blocks + residues, against hashlib"),
    Facet("preset-counters", check_preset, strategy=preset_strategy, budget={"quick": 1500, "thorough": 20000}, shards={"quick": 16, "thorough": 32},
          nontrivial=lambda c: True, classify=classify_preset,
          rule="initstate(); H := random chaining words; padmethod.bitcnt := block multiple just below 2^w / 2^(2w) (bits for BLAKE, bytes*8 for BLAKE2) "
               "or uniformly large; update(tail, padding=True) == resumable reference; in half of the cases another object of the same class and size "
               "computes a complete digest between the preset and the final update"),
    Facet("reused-object", check_history, strategy=history_strategy, budget={"quick": 1000, "thorough": 15000}, shards={"quick": 16, "thorough": 32},
          nontrivial=lambda c: True,
          classify=lambda c: (c["kind"], "has streaming/refused call" if any(x[0] == "disturb" for x in c["calls"]) else "one-shot only",
                              "sibling object of another size" if c.get("sib") else "no sibling"),
          rule="2..5 calls on ONE object: one-shot digests with changing salt / bit length / BLAKE2 parameters, interleaved with streaming "
               "update() calls (one whole block, or a padded final piece) and refused calls; every one-shot digest is judged"),
]
WEIGHT = {"blake-length-sweep": 8, "blake2-parameters": 6, "blake2-length-sweep": 5}
