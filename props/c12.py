"""C12 - Skein hash, MAC and tree hash equal the Skein 1.3 specification.
Oracle: ref/skein.py over ref/threefish.py (all appendix vectors of the specification quoted in the repository's tests)."""
from hypothesis import strategies as st
from vlib.core import Facet, Violation, ALLOWED, guard, attempt, eq, expect
from vlib import gen
from ref import skein as R, threefish as RT

from crysp.bits import Bits, pack
from crysp.skein import Skein, UBI, Tweak
from crysp.threefish import Threefish

RULE = ("Case = (state size, output bits, message, bit length, key/prs/PK/kdf/nonce, tree parameters).  Output and its length "
        "(ceil(No/8)) compared with the reference.  Non-trivial = |M| >= 1 or any optional argument.")
ASSUMPTIONS = ["the reference is my reading of Skein 1.3, validated by the specification's appendix vectors (hash, bit lengths, MAC, tree, IVs)",
               "No is generated in multiples of 8; the tree path takes byte lengths only (the API passes no bit length there)",
               "an explicit bit length is at least 1", "UBI start positions are below 2^96 (the width of the tweak's position field)"]
SELFTESTS = [("threefish", RT.selftest), ("skein", R.selftest)]

OPT = ("key", "prs", "PK", "kdf", "nonce")


def kwargs_of(c):
    kw = {}
    for k in OPT:
        if k in c:
            kw[k] = c[k]
    for k in ("Yl", "Yf", "Ym"):
        if c.get(k):
            kw[k] = c[k]
    return kw


def check_skein(c):
    Nb, No, M, L = c["Nb"], c["No"], c["M"], c.get("L")
    kw = kwargs_of(c)
    obj = guard(Skein, Nb, No, **kw)
    got = guard(obj, M) if L is None else guard(obj, M, bitlen=L)
    refkw = {("nonce" if k == "nonce" else k): v for k, v in kw.items()}
    exp = R.skein(Nb, No, M, bitlen=L, **refkw)
    expect(isinstance(got, bytes), "skein:type", "bytes", type(got).__name__)
    eq(len(got), (No + 7) // 8, "skein:output-length")
    if got != exp:
        raise Violation("skein!=spec:" + cause(c), exp, got)


def cause(c):
    """coarse root-cause class used in the signature"""
    parts = []
    if c.get("Ym"):
        parts.append("tree" + (",empty-message" if not c["M"] else ""))
    if c.get("L") is not None and c["L"] % 8 == 0:
        parts.append("explicit-bitlen%8==0")
    if c.get("key") == b"":
        parts.append("empty-key")
    if c["No"] > c["Nb"]:
        parts.append("No>Nb")
    return ",".join(parts) or "plain"


def classify(c):
    Nb = c["Nb"] // 8
    n = len(c["M"])
    lab = ["Nb=%d" % c["Nb"], "No<=Nb" if c["No"] <= c["Nb"] else "No>Nb", "blocks=%d" % min(4, n // Nb)]
    if c.get("L") is not None:
        lab.append("L%8!=0" if c["L"] % 8 else "L%8==0 explicit")
    for k in OPT:
        if k in c:
            lab.append(k + ("=empty" if c[k] == b"" else ""))
    if c.get("Ym"):
        lab.append("tree")
    return tuple(lab)


def nontriv(c):
    return len(c["M"]) >= 1 or any(k in c for k in OPT) or bool(c.get("Ym"))


def hash_sweep(tier, rnd):
    for Nb in (256, 512, 1024):
        B = Nb // 8
        top = 2 * B + 2 if tier == "quick" else 4 * B + 1
        for n in range(top + 1):
            if tier == "quick" and Nb == 1024 and n % 3 and not (n % B in (0, 1, B - 1)):
                continue
            M = bytes(rnd.randrange(256) for _ in range(n))
            yield {"Nb": Nb, "No": Nb, "M": M}
            if n:
                yield {"Nb": Nb, "No": [8, Nb // 2, Nb, Nb + 8, 2 * Nb][n % 5], "M": M, "L": 8 * n - (n % 8)}


def hash_strategy(tier):
    def for_nb(Nb):
        B = Nb // 8
        No = gen.pick((3, st.sampled_from([8, 128, 160, 224, 256, Nb - 8, Nb, Nb + 8, 2 * Nb, 2 * Nb + 8, 4 * Nb])), (1, gen.uint(1, 4 * Nb // 8).map(lambda k: 8 * k)))
        ln = gen.length(B, 4)

        def opt(s):
            return gen.pick((2, st.none()), (1, s))
        key = opt(gen.blob_of(gen.pick((1, st.just(0)), (2, gen.uint(1, B - 1)), (1, st.just(B)), (1, gen.uint(B + 1, 2 * B + 3)))))
        other = opt(gen.blob_of(gen.pick((1, gen.uint(1, 20)), (1, gen.uint(B - 1, B + 1)))))

        def build(No_, M, lm, d, extra, key_, prs, PK, kdf, non):
            c = {"Nb": Nb, "No": No_, "M": M}
            if lm and M:
                c["L"] = 8 * len(M) - (d if lm < 3 else 0)
                if lm == 2:
                    c["M"] = M + extra
            for k, v in (("key", key_), ("prs", prs), ("PK", PK), ("kdf", kdf), ("nonce", non)):
                if v is not None:
                    c[k] = v
            return c
        return st.builds(build, No, gen.blob_of(ln), gen.uint(0, 3), gen.uint(0, 7), gen.blob_of(gen.uint(1, 20)), key, other, other, other, other)
    return st.sampled_from([256, 512, 1024]).flatmap(for_nb)


def tree_strategy(tier):
    def for_nb(Nb):
        B = Nb // 8

        def for_y(y):
            Yl, Yf, Ym = y
            leaf = B << Yl
            node = B << Yf
            # message sizes: empty, < leaf, = leaf, several leaves reaching 2, 3 and Ym levels
            fan = 1 << Yf
            sizes = [0, 1, leaf - 1, leaf, leaf + 1, 2 * leaf, fan * leaf, fan * leaf + 1, fan * fan * leaf + 1]
            maxbytes = 9000 if tier == "quick" else 40000
            sizes = [s for s in sizes if s <= maxbytes]
            ln = gen.pick((3, st.sampled_from(sizes)), (1, gen.uint(0, min(maxbytes, 4 * leaf))))
            return st.tuples(gen.blob_of(ln), st.sampled_from([Nb, 8, 2 * Nb]), gen.pick((3, st.none()), (1, gen.blob(5)))).map(
                lambda t: dict({"Nb": Nb, "No": t[1], "M": t[0], "Yl": Yl, "Yf": Yf, "Ym": Ym}, **({"key": t[2]} if t[2] is not None else {})))
        return st.tuples(gen.uint(1, 3), gen.uint(1, 3), gen.uint(2, 4)).flatmap(for_y)
    return st.sampled_from([256, 256, 512, 1024]).flatmap(for_nb)


# ---------------------------------------------------------------------------
# UBI with start positions near 2^64 / 2^96
def check_ubi(c):
    G, M, L, pos, typ = c["G"], c["M"], c.get("L"), c["pos"], c["type"]
    nbytes = (L + 7) // 8 if L is not None else len(M)
    if pos + nbytes >= (1 << 96):
        st_, r = attempt(lambda: UBI(Threefish, G, Tweak(Position=pos, Type=typ))(M, L) if L is not None else UBI(Threefish, G, Tweak(Position=pos, Type=typ))(M))
        if st_ == "ok":
            raise Violation("ubi:position>=2^96-accepted", "an exception", r)
        return ALLOWED
    u = guard(UBI, Threefish, G, Tweak(Position=pos, Type=typ))
    got = guard(u, M) if L is None else guard(u, M, L)
    exp = R.ubi(G, M, typ, bitlen=L, pos0=pos)
    if got != exp:
        raise Violation("ubi!=spec" + (":position-carry" if pos + len(M) >= (1 << 64) else ""), exp, got)


def ubi_strategy(tier):
    def for_nb(nb):
        pos = gen.pick((3, gen.uint(0, 3 * nb + 2).map(lambda d: (1 << 64) - d)), (1, st.just(0)), (1, gen.nbits(90)),
                       (2, gen.uint(1, 3 * nb + 2).map(lambda d: (1 << 96) - d)), (1, st.sampled_from([(1 << 32) - 1, (1 << 64), (1 << 95)])))

        def build(G, M, p, typ, lm, d):
            c = {"G": G, "M": M, "pos": p, "type": typ}
            if lm and M:
                c["L"] = 8 * len(M) - d
            return c
        return st.builds(build, gen.blob(nb), gen.blob_of(gen.length(nb, 3)), pos, st.sampled_from(["msg", "key", "cfg", "prs", "PK", "kdf", "non", "out"]),
                         gen.uint(0, 1), gen.uint(1, 7))
    return st.sampled_from([32, 64, 128]).flatmap(for_nb)


def classify_ubi(c):
    p, n = c["pos"], len(c["M"])
    return ("crosses 2^64" if p < (1 << 64) <= p + n else "pos>=2^64" if p >= (1 << 64) else "pos<2^64",
            "refused (>=2^96)" if p + n >= (1 << 96) else "accepted", "L" if c.get("L") is not None else "bytes")


# ---------------------------------------------------------------------------
def check_history(c):
    kw = kwargs_of(c)
    obj = guard(Skein, c["Nb"], c["No"], **kw)
    sNb = {256: 512, 512: 1024, 1024: 256}[c["Nb"]] if c.get("sib") == 1 else c["Nb"]
    sNo = c["No"] if c.get("sib") == 1 else c["No"] + 8
    sib = guard(Skein, sNb, sNo) if c.get("sib") else None    # another configuration, built after obj, used between its calls
    for i, (M, L) in enumerate(c["msgs"]):
        if sib is not None and i % 2 == 1:
            sm = bytes(range(i, i + 40))
            if guard(sib, sm) != R.skein(sNb, sNo, sm):
                raise Violation("skein:reused-object:sibling-object!=spec", None, None)
        if L == "update":
            attempt(obj.update, M)        # a bare UBI step on the object's chaining value: not judged, the calls after it are
            continue
        if L is not None and L > 8 * len(M):
            attempt(obj, M, bitlen=L)     # over-long bit length: refused or not, only the calls after it are judged
            continue
        got = guard(obj, M) if L is None else guard(obj, M, bitlen=L)
        exp = R.skein(c["Nb"], c["No"], M, bitlen=L, **kw)
        if got != exp:
            raise Violation("skein:reused-object!=spec", {"call": i, "out": exp}, {"call": i, "out": got})


def history_strategy(tier):
    def build(Nb, No, key, tree, msgs, sib=0):
        c = {"Nb": Nb, "No": No, "sib": sib, "msgs": tuple((M, "update" if lm == 8 else 8 * len(M) + 3 if lm == 9 else None if lm == 0 or not M or tree else 8 * len(M) - lm)
                                               for M, lm in msgs)}
        if key is not None:
            c["key"] = key
        for j, o in enumerate(("prs", "PK", "kdf", "nonce")):
            if len(msgs[0][0]) >> j & 1:             # optional stages, each in half of the cases
                c[o] = o.encode() + bytes(msgs[0][0][:j + 1])
        if tree:
            c.update({"Yl": 1, "Yf": 1, "Ym": 2})
            c["msgs"] = tuple((M or b"\\x00", "update" if lm == 8 else 8 * len(M) + 3 if lm == 9 and M else None) for M, lm in msgs)
        if c["msgs"][-1][1] is not None and (c["msgs"][-1][1] == "update" or c["msgs"][-1][1] > 8 * len(c["msgs"][-1][0])):
            c["msgs"] += ((b"after", None),)
        return c
    return st.builds(build, st.sampled_from([256, 512, 1024]), st.sampled_from([8, 256, 512]), gen.pick((2, st.none()), (1, gen.blob(7))), st.booleans(),
                     st.lists(st.tuples(gen.blob_of(gen.uint(0, 150)), gen.uint(0, 9)), min_size=2, max_size=4), st.sampled_from([0, 1, 2]))


FACETS = [
    Facet("hash-length-sweep", check_skein, cases=hash_sweep, nontrivial=nontriv, classify=classify, shards={"quick": 16, "thorough": 32},
          rule="Skein-256/512/1024 x EVERY byte length 0..2B+2 (0..4B+1 thorough; every 3rd + boundaries for 1024 in the quick tier), No = Nb; "
               "and a bit length 8n-(n%8) with No cycling through {8, Nb/2, Nb, Nb+8, 2Nb}"),
    Facet("hash-mac-random", check_skein, strategy=hash_strategy, budget={"quick": 5000, "thorough": 60000}, shards={"quick": 16, "thorough": 32},
          nontrivial=nontriv, classify=classify,
          rule="No in {8..4Nb} (multiples of 8, <=Nb / Nb+8 / 2Nb / 4Nb emphasised), 0..4 blocks + residues, L absent / partial last byte / "
               "explicit multiple of 8 / prefix of a longer string, key in {absent, empty, short, one block, longer}, prs/PK/kdf/nonce absent or random"),
    Facet("tree", check_skein, strategy=tree_strategy, budget={"quick": 1500, "thorough": 20000}, shards={"quick": 16, "thorough": 32},
          nontrivial=nontriv, classify=lambda c: ("Nb=%d" % c["Nb"], "Yl=%d" % c["Yl"], "Yf=%d" % c["Yf"], "Ym=%d" % c["Ym"],
                                                   "empty" if not c["M"] else "one leaf" if len(c["M"]) <= (c["Nb"] // 8) << c["Yl"] else "several leaves"),
          rule="Yl,Yf in 1..3, Ym in 2..4; |M| in {0, 1, leaf-1, leaf, leaf+1, 2 leaves, fan-out leaves (+1), fan-out^2 leaves + 1} and uniform; optional key"),
    Facet("ubi-position", check_ubi, strategy=ubi_strategy, budget={"quick": 2000, "thorough": 20000}, shards={"quick": 8, "thorough": 16},
          nontrivial=lambda c: True, classify=classify_ubi,
          rule="UBI(Threefish, G, Tweak(Position=p, Type=t))(M[,bitlen]) with p just below 2^64 (carry into the second tweak word), uniformly large, and "
               "just below 2^96 where p + |M| >= 2^96 must be refused"),
    Facet("reused-object", check_history, strategy=history_strategy, budget={"quick": 1000, "thorough": 10000}, shards={"quick": 16, "thorough": 32},
          nontrivial=lambda c: True, classify=lambda c: ("Nb=%d" % c["Nb"], "tree" if c.get("Ym") else "flat",
                                                        "has unjudged call" if any(L == "update" or (L is not None and L > 8 * len(M)) for M, L in c["msgs"]) else "all calls valid",
                                                        ["no sibling", "sibling with another state size", "sibling with another output size"][c.get("sib", 0)]),
          rule="2..4 messages hashed one after the other by ONE Skein object (flat and tree)"),
]
WEIGHT = {"hash-length-sweep": 6, "hash-mac-random": 6, "tree": 8}
