"""C13 - HMAC equals RFC 2104 for every hash of the library, key length and message.
Oracles: (a) RFC 2104 written out over the independent reference hash (ref.mdsha / ref.blake), (b) Python's
hmac module where hashlib has the hash, (c) RFC 2104 written out over a fresh instance of the same crysp hash."""
import hmac as pyhmac, hashlib
from hypothesis import strategies as st
from vlib.core import Facet, Violation, ALLOWED, guard, attempt, eq, expect
from vlib import gen
from ref import mdsha, blake as blakeref

from crysp.hmac import HMAC
from crysp.md import MD4, MD5
from crysp.sha import SHA1, SHA2
from crysp.blake import Blake

RULE = ("Case = (hash, key, message).  HMAC(h,K)(M) is compared with RFC 2104 over independent hashes.  "
        "Non-trivial = non-empty key.")
ASSUMPTIONS = ["Python's hmac/hashlib are RFC 2104 / FIPS 198-1 conformant", "ref.mdsha / ref.blake validated by their self-tests"]
SELFTESTS = [("mdsha", mdsha.selftest), ("blake", blakeref.selftest)]

HASHES = ["md4", "md5", "sha1", "sha224", "sha256", "sha384", "sha512", "sha512_224", "sha512_256",
          "blake224", "blake256", "blake384", "blake512"]
PYHMAC = {"md5", "sha1", "sha224", "sha256", "sha384", "sha512", "sha512_224", "sha512_256"}


def make(name):
    if name == "md4":
        return MD4()
    if name == "md5":
        return MD5()
    if name == "sha1":
        return SHA1()
    if name == "sha512_224":
        return SHA2(512, 224)
    if name == "sha512_256":
        return SHA2(512, 256)
    if name.startswith("sha"):
        return SHA2(int(name[3:]))
    return Blake(int(name[5:]))


def blockbytes(name):
    if name.startswith("blake"):
        return 128 if int(name[5:]) > 256 else 64
    return mdsha.ALGS[name][0] // 8


def refhash(name, M):
    if name.startswith("blake"):
        return blakeref.blake(int(name[5:]), M)
    return mdsha.digest(name, M)


def rfc2104(hashf, B, K, M):
    if len(K) > B:
        K = hashf(K)
    K = K + b"\0" * (B - len(K))
    return hashf(bytes(x ^ 0x5c for x in K) + hashf(bytes(x ^ 0x36 for x in K) + M))


def expected(name, K, M):
    exp = rfc2104(lambda m: refhash(name, m), blockbytes(name), K, M)
    if name in PYHMAC:
        assert pyhmac.new(K, M, name).digest() == exp, "reference HMAC disagrees with Python hmac"
    return exp


def kclass(name, K):
    B = blockbytes(name)
    return "|K|=0" if not K else "|K|<B" if len(K) < B else "|K|=B" if len(K) == B else "|K|>B"


def check_hmac(c):
    name, K, M = c["hash"], c["K"], c["M"]
    h = guard(make, name)
    mac = guard(HMAC, h, K)
    got = guard(mac, M)
    exp = expected(name, K, M)
    expect(isinstance(got, bytes), "hmac:type", "bytes", type(got).__name__)
    if got != exp:
        raise Violation("hmac!=rfc2104:%s" % kclass(name, K), exp, got)
    # same construction over a fresh instance of the same crysp hash (isolates the HMAC logic)
    own = rfc2104(lambda m: make(name)(m), blockbytes(name), K, M)
    if got != own:
        raise Violation("hmac!=rfc2104-over-own-hash:%s" % kclass(name, K), own, got)
    if c.get("again"):
        got2 = guard(mac, M)
        if got2 != exp:
            raise Violation("hmac:second-call-differs", exp, got2)


def sweep_cases(tier, rnd):
    for name in HASHES:
        B = blockbytes(name)
        top = 3 * B + 1 if tier == "thorough" else 2 * B + 9
        dl = len(refhash(name, b""))
        for kl in range(top + 1):
            K = bytes(rnd.randrange(256) for _ in range(kl))
            near = abs(kl - B) <= 2 or abs(kl - dl) <= 1 or kl <= 1
            M = bytes(rnd.randrange(256) for _ in range(rnd.choice([0, 1, 20, B, B + 1]) if near else rnd.randrange(40)))
            yield {"hash": name, "K": K, "M": M, "again": near}


def random_strategy(tier):
    def for_hash(name):
        B = blockbytes(name)
        dl = len(refhash(name, b""))
        kl = gen.pick((2, st.sampled_from([0, 1, dl - 1, dl, dl + 1, B - 1, B, B + 1, 2 * B, 3 * B])), (2, gen.uint(0, B)), (1, gen.uint(B + 1, 3 * B)))
        ml = gen.pick((1, st.just(0)), (3, gen.uint(1, B)), (1, gen.uint(B + 1, 3 * B)))
        return st.builds(lambda K, M, a: {"hash": name, "K": K, "M": M, "again": a}, gen.blob_of(kl), gen.blob_of(ml), st.booleans())
    return st.sampled_from(HASHES).flatmap(for_hash)


# ---------------------------------------------------------------------------
def check_setkey(c):
    name, keys, M = c["hash"], c["keys"], c["M"]
    h = guard(make, name)
    mac = guard(HMAC, h, keys[0]) if c.get("ctor_key", True) else guard(HMAC, h)
    if not c.get("ctor_key", True):
        guard(mac.setkey, keys[0])
    for i, K in enumerate(keys):
        if i:
            guard(mac.setkey, K)
        got = guard(mac, M)
        exp = expected(name, K, M)
        if got != exp:
            raise Violation("hmac:after-setkey:%s" % kclass(name, K), exp, got)
        fresh = guard(HMAC(guard(make, name), K), M)
        if got != fresh:
            raise Violation("hmac:after-setkey!=fresh-object", fresh, got)


def check_shared(c):
    """two HMAC objects over ONE hash instance, and plain use of that instance in between (HMAC only borrows the hash: it
    starts every computation with a one-shot call, so nothing may leak in either direction)"""
    name = c["hash"]
    h = guard(make, name)
    macs = [guard(HMAC, h, K) for K in c["keys"]]
    for i, (who, M) in enumerate(c["calls"]):
        if who == "option":
            # the borrowed hash instance is used once with a per-call option (BLAKE salt, a bit length): not judged
            if name.startswith("blake"):
                attempt(h, M, s=0x0123456789abcdef0fedcba987654321)
            else:
                attempt(h, M + b"x", bitlen=8 * len(M) + 3)
            continue
        if who == "stream":
            # somebody streams a block into the borrowed hash instance and never finishes (not judged)
            if len(M) % 2:
                attempt(h.initstate)
            attempt(h.update, bytes(blockbytes(name)))
            continue
        if who == "hash":
            got, exp = guard(h, M), refhash(name, M)
            if got != exp:
                raise Violation("hmac:shared-hash:plain-digest-disturbed", {"call": i, "d": exp}, {"call": i, "d": got})
            continue
        j = who % len(macs)
        got = guard(macs[j], M)
        exp = expected(name, c["keys"][j], M)
        if got != exp:
            raise Violation("hmac:shared-hash:%s" % kclass(name, c["keys"][j]), {"call": i, "mac": exp}, {"call": i, "mac": got})


def shared_strategy(tier):
    def for_hash(name):
        B = blockbytes(name)
        kl = gen.pick((2, st.sampled_from([0, 1, B - 1, B, B + 1, 2 * B])), (2, gen.uint(0, B)), (1, gen.uint(B + 1, 2 * B + 5)))
        call = st.tuples(gen.pick((4, gen.uint(0, 5)), (1, st.just("hash")), (1, st.just("stream")), (1, st.just("option"))), gen.blob_of(gen.pick((3, gen.uint(0, B + 3)), (1, st.sampled_from([B, 2 * B])))))
        return st.builds(lambda ks, calls: {"hash": name, "keys": tuple(ks), "calls": tuple(calls) + ((0, b"after"),) * isinstance(calls[-1][0], str)},
                         st.lists(gen.blob_of(kl), min_size=2, max_size=3), st.lists(call, min_size=3, max_size=6))
    return st.sampled_from(HASHES).flatmap(for_hash)


def setkey_strategy(tier):
    def for_hash(name):
        B = blockbytes(name)
        kl = gen.pick((2, st.sampled_from([0, 1, B - 1, B, B + 1, 2 * B])), (2, gen.uint(0, B)), (1, gen.uint(B + 1, 2 * B + 5)))
        return st.builds(lambda ks, M, ck: {"hash": name, "keys": tuple(ks), "M": M, "ctor_key": ck},
                         st.lists(gen.blob_of(kl), min_size=2, max_size=4), gen.blob_of(gen.uint(0, B + 3)), st.booleans())
    return st.sampled_from(HASHES).flatmap(for_hash)


FACETS = [
    Facet("key-length-sweep", check_hmac, cases=sweep_cases, nontrivial=lambda c: len(c["K"]) > 0,
          classify=lambda c: (c["hash"], kclass(c["hash"], c["K"])), shards={"quick": 16, "thorough": 32},
          rule="13 hashes x EVERY key length 0..2B+9 (3B+1 thorough), random key and message (message lengths {0,1,20,B,B+1} near the boundaries)"),
    Facet("random", check_hmac, strategy=random_strategy, budget={"quick": 1200, "thorough": 30000},
          nontrivial=lambda c: len(c["K"]) > 0, classify=lambda c: (c["hash"], kclass(c["hash"], c["K"]), "|M|>B" if len(c["M"]) > blockbytes(c["hash"]) else "|M|<=B"),
          rule="key length boundary-biased around the block and digest size, content random/constant/single-bit, messages 0..3 blocks"),
    Facet("shared-hash-histories", check_shared, strategy=shared_strategy, budget={"quick": 500, "thorough": 10000},
          nontrivial=lambda c: True,
          classify=lambda c: (c["hash"], "plain hash call in between" if any(w == "hash" for w, _ in c["calls"]) else "no plain hash call",
                              "unfinished stream on the hash instance" if any(w == "stream" for w, _ in c["calls"]) else "no stream",
                              "per-call option used on the hash instance" if any(w == "option" for w, _ in c["calls"]) else "no option call"),
          rule="2..3 HMAC objects with different keys over ONE hash instance, 3..6 interleaved calls (and plain digests by that instance): "
               "every MAC == RFC 2104 value, every plain digest == the hash's own"),
    Facet("setkey-histories", check_setkey, strategy=setkey_strategy, budget={"quick": 600, "thorough": 12000},
          nontrivial=lambda c: True,
          classify=lambda c: (c["hash"],) + tuple("%s->%s" % (kclass(c["hash"], a), kclass(c["hash"], b)) for a, b in zip(c["keys"], c["keys"][1:])),
          rule="2..4 keys set one after the other on one object (constructor key or setkey first); after each, the MAC equals RFC 2104 and a fresh object's"),
]
WEIGHT = {"key-length-sweep": 5, "random": 3}
