"""C14 - Hashing a message piecewise gives the same digest as hashing it at once.
Oracles: the one-shot call on a fresh object (relation inside crysp) AND an independent digest
(hashlib / ref.mdsha / ref.blake), plus the bit counter after every piece."""
import hashlib, itertools
from hypothesis import strategies as st
from vlib.core import Facet, Violation, ALLOWED, guard, attempt, eq, expect
from vlib import gen
from ref import mdsha, blake as blakeref, padref

from crysp.md import MD4, MD5
from crysp.sha import SHA1, SHA2
from crysp.blake import Blake, Blake2
from crysp.nilsimsa import Nilsimsa

RULE = ("Case = (hash, parameters, block-aligned pieces (possibly empty), final piece of any length).  initstate(); "
        "update(piece)...; update(last, padding=True) must equal the one-shot digest of a fresh object and the independent "
        "reference; padmethod.bitcnt == 8*bytes fed after every piece.  Non-trivial = at least 2 pieces.")
ASSUMPTIONS = ["hashlib implements MD5/SHA/BLAKE2 per the standards; ref.mdsha and ref.blake are validated by their self-tests",
               "BLAKE2 salt/personalisation are given empty or full length"]
SELFTESTS = [("mdsha", mdsha.selftest), ("blake", blakeref.selftest)]

MD = ["md4", "md5", "sha0", "sha1", "sha224", "sha256", "sha384", "sha512", "sha512_224", "sha512_256"]
BLAKES = ["blake224", "blake256", "blake384", "blake512"]
BLAKE2 = ["blake2b", "blake2s"]
ALL = MD + BLAKES + BLAKE2


def blockbytes(name):
    if name in MD:
        return mdsha.ALGS[name][0] // 8
    if name in BLAKES:
        return 128 if int(name[5:]) > 256 else 64
    return 128 if name == "blake2b" else 64


def make(name):
    if name == "md4":
        return MD4()
    if name == "md5":
        return MD5()
    if name == "sha0":
        return SHA1(version=0)
    if name == "sha1":
        return SHA1()
    if name == "sha512_224":
        return SHA2(512, 224)
    if name == "sha512_256":
        return SHA2(512, 256)
    if name.startswith("sha"):
        return SHA2(int(name[3:]))
    if name in BLAKES:
        return Blake(int(name[5:]))
    return Blake2(512 if name == "blake2b" else 256)


def b2kwargs(p):
    return {k: v for k, v in p.items() if v is not None}


def reference(name, M, p):
    if name in MD:
        return mdsha.digest(name, M)
    if name in BLAKES:
        return blakeref.blake(int(name[5:]), M, None, p.get("salt", 0))
    f = hashlib.blake2b if name == "blake2b" else hashlib.blake2s
    kw = {"digest_size": p.get("outlen") or (64 if name == "blake2b" else 32)}
    if p.get("salt"):
        kw["salt"] = p["salt"]
    if p.get("pers"):
        kw["person"] = p["pers"]
    return f(M, **kw).digest()


def oneshot(name, M, p):
    h = guard(make, name)
    if name in MD:
        return guard(h, M)
    if name in BLAKES:
        return guard(h, M, s=p.get("salt", 0))
    return guard(h, M, **b2kwargs(p))


def check_pieces(c):
    name, p, pieces, last = c["hash"], c.get("params", {}), c["pieces"], c["last"]
    whole = b"".join(pieces) + last
    exp_ref = reference(name, whole, p)
    h = guard(make, name)
    if name in MD:
        guard(h.initstate)
    elif name in BLAKES:
        guard(h.initstate, salt=p.get("salt", 0))
    else:
        guard(h.initstate, **b2kwargs(p))
    fed = 0
    for piece in pieces:
        guard(h.update, piece)
        fed += 8 * len(piece)
        if h.padmethod.bitcnt != fed:
            raise Violation("%s:bitcnt-after-piece" % kindof(name), fed, h.padmethod.bitcnt)
    got = guard(h.update, last, padding=True)
    one = oneshot(name, whole, p)
    # BLAKE2 must finalize on the last *data* block; with an empty final piece that block was already compressed
    # by an earlier update() - a separate root cause (needs buffering), so it gets its own signature
    tag = kindof(name) + (":empty-final-piece-after-blocks" if name in BLAKE2 and not last and whole else "")
    if got != one:
        raise Violation("%s:piecewise!=one-shot" % tag, one, got)
    if got != exp_ref:
        raise Violation("%s:piecewise!=reference" % tag, exp_ref, got)


def start(h, name, p):
    if name in MD:
        guard(h.initstate)
    elif name in BLAKES:
        if p.get("salt", 0):
            guard(h.initstate, salt=p["salt"])
        else:
            guard(h.initstate)            # the default (no salt), whatever salt an earlier call on this object used
    else:
        guard(h.initstate, **b2kwargs(p))


def check_streams(c):
    """several streams on TWO objects of one class, taken up alternately: a stream is (parameters, pieces, final piece or
    None = abandoned without a final piece); every finished stream gives the one-shot digest of its own message and the
    bit counter follows its own pieces, whatever was streamed before on the same object or meanwhile on the other one"""
    name = c["hash"]
    objs = [guard(make, name), guard(make, name)]
    progress = [None, None]          # per object: [stream, next piece index, bits fed]
    queue = list(c["streams"])
    turn = 0
    for step in c["schedule"] + (0, 1) * 40:
        o = step % 2
        if progress[o] is None:
            if not queue:
                if progress[1 - o] is None:
                    break
                continue
            progress[o] = [queue.pop(0), 0, 0]
            if not progress[o][0].get("oneshot"):
                start(objs[o], name, progress[o][0]["params"])
        st_, i, fed = progress[o]
        h = objs[o]
        if i < len(st_["pieces"]):
            guard(h.update, st_["pieces"][i])
            fed += 8 * len(st_["pieces"][i])
            if h.padmethod.bitcnt != fed:
                raise Violation("%s:streams:bitcnt-after-piece" % kindof(name), fed, h.padmethod.bitcnt)
            progress[o] = [st_, i + 1, fed]
            continue
        progress[o] = None
        if st_["last"] is None:
            continue                 # abandoned: the next stream on this object starts with initstate()
        whole = b"".join(st_["pieces"]) + st_["last"]
        exp = reference(name, whole, st_["params"])
        if st_.get("oneshot"):
            # the one-shot call on an object that was used for streaming before (possibly an abandoned stream)
            p_ = st_["params"]
            got = guard(h, whole) if name in MD else guard(h, whole, s=p_.get("salt", 0)) if name in BLAKES else guard(h, whole, **b2kwargs(p_))
            if got != exp:
                raise Violation("%s:streams:one-shot-after-streaming!=reference" % kindof(name), exp, got)
            continue
        got = guard(h.update, st_["last"], padding=True)
        if got != exp:
            raise Violation("%s:streams:piecewise!=reference" % kindof(name), exp, got)


def streams_strategy(tier):
    def for_hash(name):
        B = blockbytes(name)
        piece = gen.uint(0, 2).flatmap(lambda k: gen.blob(k * B))
        if name in BLAKES:
            w = 64 if int(name[5:]) > 256 else 32
            par = gen.pick((1, st.just({"salt": 0})), (1, gen.nbits(4 * w).map(lambda s_: {"salt": s_})))
        elif name in BLAKE2:
            full = 64 if name == "blake2b" else 32
            par = gen.pick((1, st.just({})), (1, gen.uint(1, full).map(lambda o: {"outlen": o})))
        else:
            par = st.just({})
        stream = st.builds(lambda ps, l_, ab, p: {"params": p, "pieces": () if ab == 1 else tuple(ps), "last": None if ab == 0 and ps else l_,
                                                  "oneshot": ab == 1},
                           st.lists(piece, min_size=0, max_size=3), gen.blob_of(gen.length(B, 1)), gen.uint(0, 4), par)
        return st.builds(lambda ss, sch: {"hash": name, "streams": tuple(ss) + ({"params": {}, "pieces": (bytes(B),), "last": b"end"},) * 2,
                                          "schedule": tuple(sch)},
                         st.lists(stream, min_size=2, max_size=4), st.lists(gen.uint(0, 1), min_size=0, max_size=16))
    return st.sampled_from(ALL).flatmap(for_hash)


def kindof(name):
    return "md/sha" if name in MD else "blake" if name in BLAKES else "blake2"


def params_for(name, rnd_or_none, variant):
    if name in BLAKES:
        w = 64 if int(name[5:]) > 256 else 32
        return {"salt": [0, 1, (1 << (4 * w)) - 1, 0x0123456789abcdef << (2 * w)][variant % 4]}
    if name in BLAKE2:
        l = 16 if name == "blake2b" else 8
        full = 64 if name == "blake2b" else 32
        return [{}, {"outlen": full // 2}, {"salt": bytes(range(l)), "pers": bytes(range(100, 100 + l))},
                {"outlen": 1, "salt": b"\xff" * l}][variant % 4]
    return {}


def cut_cases(tier, rnd):
    nmax = 3 if tier == "quick" else 4
    kmax = 3 if tier == "quick" else 5
    for hi, name in enumerate(ALL):
        B = blockbytes(name)
        tails = [0, 1, B - 1, B, B + 1, 2 * B + 3]
        data = bytes(rnd.randrange(256) for _ in range(nmax * B + 2 * B + 3))
        v = 0
        for k in range(0, kmax + 1):
            for cuts in itertools.combinations_with_replacement(range(nmax + 1), k):
                pts = [0] + [x * B for x in cuts]
                pieces = tuple(data[pts[i]:pts[i + 1]] for i in range(len(pts) - 1))
                for t in tails:
                    v += 1
                    yield {"hash": name, "params": params_for(name, rnd, v), "pieces": pieces,
                           "last": data[pts[-1]:pts[-1] + t]}


def sampled_strategy(tier):
    maxp = 6 if tier == "quick" else 12

    def for_hash(name):
        B = blockbytes(name)
        piece = gen.pick((1, st.just(0)), (3, gen.uint(1, 3)), (1, gen.uint(4, 6))).flatmap(lambda k: gen.blob(k * B))
        last = gen.blob_of(gen.length(B, 2, special=[B - 9, B - 8, B - 17, B - 16]))
        if name in BLAKES:
            w = 64 if int(name[5:]) > 256 else 32
            par = gen.nbits(4 * w).map(lambda s: {"salt": s})
        elif name in BLAKE2:
            l = 16 if name == "blake2b" else 8
            full = 64 if name == "blake2b" else 32
            par = st.builds(lambda o, s, p: {"outlen": o, "salt": s, "pers": p},
                            gen.pick((1, st.none()), (1, gen.uint(1, full))),
                            gen.pick((1, st.just(b"")), (1, gen.blob(l))), gen.pick((1, st.just(b"")), (1, gen.blob(l))))
        else:
            par = st.just({})
        return st.builds(lambda ps, l_, p: {"hash": name, "params": p, "pieces": tuple(ps), "last": l_},
                         st.lists(piece, min_size=1, max_size=maxp), last, par)
    return st.sampled_from(ALL).flatmap(for_hash)


def classify(c):
    return (kindof(c["hash"]), "pieces=%d" % min(5, len(c["pieces"])),
            "has empty piece" if any(len(p) == 0 for p in c["pieces"]) else "no empty piece",
            "empty final" if not c["last"] else "final<block" if len(c["last"]) < blockbytes(c["hash"]) else "final>=block")


# ---------------------------------------------------------------------------
# Nilsimsa: every byte cut
def nilsimsa_model(data, target=53):
    from ref.tlsh import nilsimsa       # model written from the 0.2.4 description
    return nilsimsa(data, target)


def check_nilsimsa(c):
    data, cuts, target = c["data"], c["cuts"], c["target"]
    one = guard(Nilsimsa(target), data)
    n = guard(Nilsimsa, target)
    pts = [0] + list(cuts) + [len(data)]
    for i in range(len(pts) - 1):
        r = guard(n.update, data[pts[i]:pts[i + 1]])
        expect(r is n, "nilsimsa:update-does-not-return-self")
    got = guard(n.digest)
    if got != one:
        raise Violation("nilsimsa:piecewise!=one-shot", one, got)
    eq(len(got), 32, "nilsimsa:digest-length")
    # a second message streamed into the same object after its digest was taken: a new computation
    data2 = data[::-1] + b"second"
    one2 = guard(Nilsimsa(target), data2)
    k = pts[1] if len(pts) > 2 else len(data2) // 2
    guard(n.update, data2[:k])
    guard(n.update, data2[k:])
    got2 = guard(n.digest)
    if got2 != one2:
        raise Violation("nilsimsa:second-stream-on-the-same-object!=one-shot", one2, got2)


def nilsimsa_cases(tier, rnd):
    top = 24 if tier == "quick" else 40
    for n in range(0, top + 1):
        data = bytes(rnd.randrange(256) for _ in range(n))
        for a in range(0, n + 1):
            yield {"data": data, "cuts": (a,), "target": 53}
        if n <= 12:
            for a in range(0, n + 1):
                for b in range(a, n + 1):
                    yield {"data": data, "cuts": (a, b), "target": 53 if (a + b) % 2 else 17}


def nilsimsa_strategy(tier):
    def build(data, raw, target):
        n = len(data)
        cuts = tuple(sorted(x % (n + 1) for x in raw))
        return {"data": data, "cuts": cuts, "target": target}
    return st.builds(build, gen.blob_of(gen.pick((1, gen.uint(0, 10)), (2, gen.uint(11, 400)))),
                     st.lists(gen.uint(0, 100000), min_size=1, max_size=6), st.sampled_from([53, 0, 1, 17, 128, 255]))


FACETS = [
    Facet("cuts-exhaustive", check_pieces, cases=cut_cases, exhaustive=True, distinct=True,
          nontrivial=lambda c: len(c["pieces"]) >= 1, classify=classify, shards={"quick": 16, "thorough": 32},
          rule="16 hashes x every non-decreasing list of up to 3 (5) cut points over {0,B,..,3B (4B)} x final lengths "
               "{0,1,B-1,B,B+1,2B+3}; BLAKE salts and BLAKE2 parameters cycle through 4 settings"),
    Facet("cuts-sampled", check_pieces, strategy=sampled_strategy, budget={"quick": 1500, "thorough": 30000},
          shards={"quick": 12, "thorough": 32},
          nontrivial=lambda c: len(c["pieces"]) >= 1, classify=classify,
          rule="1..6 (12) pieces of 0..6 blocks, final 0..3 blocks with boundary residues, random salts / BLAKE2 outlen, salt, personalisation"),
    Facet("stream-sequences", check_streams, strategy=streams_strategy, budget={"quick": 800, "thorough": 15000},
          shards={"quick": 12, "thorough": 32}, nontrivial=lambda c: True,
          classify=lambda c: (kindof(c["hash"]), "has abandoned stream" if any(s_["last"] is None for s_ in c["streams"]) else "all finished",
                              "has one-shot call on a streaming object" if any(s_.get("oneshot") for s_ in c["streams"]) else "streams only",
                              "interleaved" if len(set(c["schedule"])) > 1 else "one object at a time"),
          rule="4..6 streams (0..3 pieces of 0..2 blocks + final piece, a fifth abandoned before the final piece, a fifth replaced by a one-shot call) started one after the "
               "other with initstate() on TWO objects of one class that take turns by a generated schedule; every finished stream == "
               "independent reference, bit counter checked after every piece"),
    Facet("nilsimsa-cuts-exhaustive", check_nilsimsa, cases=nilsimsa_cases, exhaustive=True, distinct=True,
          nontrivial=lambda c: len(c["data"]) >= 2, classify=lambda c: ("cuts=%d" % len(c["cuts"]),),
          shards={"quick": 4, "thorough": 8},
          rule="|data| 0..24 (40): every single cut position; |data| <= 12: every pair of cut positions"),
    Facet("nilsimsa-cuts-sampled", check_nilsimsa, strategy=nilsimsa_strategy, budget={"quick": 600, "thorough": 12000},
          nontrivial=lambda c: len(c["data"]) >= 2, classify=lambda c: ("cuts=%d" % len(c["cuts"]),),
          rule="data up to 400 B, 1..6 random cut positions, 6 targets"),
]
WEIGHT = {"cuts-exhaustive": 8, "cuts-sampled": 3}
