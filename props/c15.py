"""C15 - CRC-32 equals the standard; generic CRC == bitwise division; forging helpers hit the target."""
import zlib, itertools
from hypothesis import strategies as st
from vlib.core import Facet, Violation, ALLOWED, guard, attempt, eq, expect
from vlib import gen

from crysp import crc as C
from crysp.bits import Bits

RULE = ("Oracles: zlib.crc32 (independent C implementation) and a 6-line bit-by-bit reflected "
        "division.  Non-trivial = data of at least 5 bytes (forging), at least 1 byte otherwise.")
ASSUMPTIONS = ["zlib.crc32 is the ISO-HDLC CRC-32",
               "backward tables are only defined for polynomials whose top (x^0) bit is set"]


def bitwise_crc(P, N, data, init, final):
    r = init
    for b in data:
        r ^= b
        for _ in range(8):
            r = (r >> 1) ^ P if r & 1 else r >> 1
    return (r ^ final) & ((1 << N) - 1)


def selftest_bitwise():
    import random
    rnd = random.Random(7)
    for _ in range(200):
        d = bytes(rnd.randrange(256) for _ in range(rnd.randrange(40)))
        assert bitwise_crc(0xEDB88320, 32, d, 0xffffffff, 0xffffffff) == zlib.crc32(d)
    return "bitwise division == zlib.crc32 on 200 random strings"


SELFTESTS = [("bitwise_crc", selftest_bitwise)]

# ---------------------------------------------------------------------------
# 1. crc32 == zlib, every string of <= 2 bytes

def short_cases(tier, rnd):
    yield b""
    for a in range(256):
        yield bytes([a])
    for a in range(256):
        for b in range(256):
            yield bytes([a, b])


def check_crc32(data):
    got = guard(C.crc32, data)
    eq(got, zlib.crc32(data), "crc32!=zlib")
    expect(isinstance(got, int) and not isinstance(got, bool), "crc32:type", "int", type(got).__name__)


# 2. random longer strings (boundary-biased content)
def data_strategy(maxlen):
    return gen.blob_of(gen.pick((2, gen.uint(0, 16)), (2, gen.uint(17, 300)), (1, gen.uint(301, maxlen))))

# 3. generic width/polynomial
def generic_strategy(tier):
    def build(N, praw, topset, iraw, fraw, imode, fmode, data):
        mask = (1 << N) - 1
        P = praw & mask
        if topset:
            P |= 1 << (N - 1)
        init = {0: 0, 1: mask, 2: iraw & mask}[imode]
        final = {0: 0, 1: mask, 2: fraw & mask, 3: None}[fmode]
        return {"N": N, "P": P, "init": init, "final": final, "data": data}
    width = gen.pick((1, st.sampled_from([8, 16, 24, 32, 64])), (3, gen.uint(8, 64)))
    return st.builds(build, width, gen.nbits(64), st.booleans(),
                     gen.nbits(64), gen.nbits(64),
                     gen.uint(0, 2), gen.uint(0, 3), gen.blob_of(gen.uint(0, 40)))


def check_generic(c):
    N, P, init, final, data = c["N"], c["P"], c["init"], c["final"], c["data"]
    table = guard(C.crc_table, Bits(P, N))
    expect(len(table) == 256, "crc_table:len", 256, len(table))
    if final is None:
        got = guard(C.crc, data, table, init)
        exp = bitwise_crc(P, N, data, init, 0)
    else:
        got = guard(C.crc, data, table, init, final)
        exp = bitwise_crc(P, N, data, init, final)
    eq(got, exp, "crc-generic!=bitwise-division")


# 3b. several tables alive in one process: each keeps computing the CRC of its own polynomial, and the built-in
# CRC-32 (module-level tables) is not disturbed by tables generated later
def check_tables(c):
    tables = []
    for i, op in enumerate(c["ops"]):
        if op[0] == "table":
            N, P = op[1], op[2]
            tables.append((N, P, guard(C.crc_table, Bits(P, N)), guard(C.crc_back_table, Bits(P, N)) if P >> (N - 1) else None))
        elif op[0] == "crc" and tables:
            N, P, t, bt = tables[op[1] % len(tables)]
            mask = (1 << N) - 1
            init, final = op[3] & mask, op[4] & mask
            got = guard(C.crc, op[2], t, init, final)
            eq(got, bitwise_crc(P, N, op[2], init, final), "table-history:earlier-table!=bitwise-division")
            if bt is not None and op[2]:
                pos = op[3] % len(op[2])
                eq(guard(C.crc_back_pos, op[2], pos, bt, final, got), bitwise_crc(P, N, op[2][:pos], init, 0),
                   "table-history:earlier-back-table!=forward-register")
        elif op[0] == "crc32":
            eq(guard(C.crc32, op[1]), zlib.crc32(op[1]), "table-history:crc32!=zlib")
        elif op[0] == "fix" and len(op[1]) >= 4:
            out = guard(C.crc32_fix, op[1], op[2])
            expect(isinstance(out, bytes) and zlib.crc32(out) == op[2], "table-history:crc32_fix-misses-target", op[2], repr(out)[:60])


def tables_strategy(tier):
    def table(N):
        return st.tuples(st.just("table"), st.just(N), gen.nbits(N), st.booleans()).map(lambda t: ("table", N, t[2] | (t[3] << (N - 1))))
    width = gen.pick((2, st.sampled_from([8, 16, 32, 64])), (1, gen.uint(8, 64)))
    data = gen.blob_of(gen.uint(0, 24))
    op = gen.pick((3, width.flatmap(table)), (3, st.tuples(st.just("crc"), gen.uint(0, 7), data, gen.nbits(64), gen.nbits(64))),
                  (2, st.tuples(st.just("crc32"), data)), (1, st.tuples(st.just("fix"), data, gen.nbits(32))))
    return st.lists(op, min_size=2, max_size=8).map(
        lambda l: {"ops": (("table", 32, 0xEDB88320),) + tuple(l) + (("crc", 0, b"123456789", 0xffffffff, 0xffffffff), ("crc32", b"123456789"), ("fix", b"123456789", 0x12345678))})


# 4. backward computation inverts the forward one
def back_strategy(tier):
    def build(N, praw, iraw, fraw, data, posraw, std):
        mask = (1 << N) - 1
        if std:
            N, P, mask = 32, 0xEDB88320, 0xffffffff
        else:
            P = (praw & mask) | (1 << (N - 1))
        return {"N": N, "P": P, "init": iraw & mask, "final": fraw & mask, "data": data,
                "pos": posraw % len(data), "std": std}
    width = gen.pick((1, st.sampled_from([8, 16, 24, 32, 64])), (3, gen.uint(8, 64)))
    return st.builds(build, width, gen.nbits(64), gen.nbits(64),
                     gen.nbits(64), gen.blob_of(gen.uint(1, 48)),
                     gen.uint(0, 10**4), st.booleans())


def check_back(c):
    N, P, init, final, data, pos = c["N"], c["P"], c["init"], c["final"], c["data"], c["pos"]
    table = guard(C.crc_table, Bits(P, N))
    btable = guard(C.crc_back_table, Bits(P, N))
    full = guard(C.crc, data, table, init, final)
    eq(full, bitwise_crc(P, N, data, init, final), "crc-generic!=bitwise-division")
    got = guard(C.crc_back_pos, data, pos, btable, final, full)
    exp = bitwise_crc(P, N, data[:pos], init, 0)
    eq(got, exp, "crc_back_pos!=forward-register")
    if c["std"]:
        f32 = guard(C.crc32, data)
        got = guard(C.crc32_back_pos, data, pos, f32)
        exp = bitwise_crc(0xEDB88320, 32, data[:pos], 0xffffffff, 0)
        eq(got, exp, "crc32_back_pos!=forward-register")


# 5. forging
TARGETS = [0, 1, 0xffffffff, 0x80000000, 0xdeadbeef]


def check_fix(c):
    data, target, pos, as_str = c["data"], c["target"], c["pos"], c.get("str", False)
    n = len(data)
    if pos is None:
        t = hex(target) if as_str else target
        out = guard(C.crc32_fix, data, t)
        pos = n - 4
        name = "crc32_fix"
    else:
        out = guard(C.crc32_fix_pos, data, pos, target)
        name = "crc32_fix_pos"
    expect(isinstance(out, bytes), name + ":type", "bytes", type(out).__name__)
    eq(len(out), n, name + ":length-changed")
    eq(out[:pos] + out[pos + 4:], data[:pos] + data[pos + 4:], name + ":bytes-outside-window-changed")
    eq(zlib.crc32(out), target, name + ":crc!=target")


def fix_cases(tier, rnd):
    maxn = 24 if tier == "quick" else 40
    for n in range(4, maxn + 1):
        data = bytes(rnd.randrange(256) for _ in range(n))
        for ti, target in enumerate(TARGETS + [rnd.randrange(1 << 32)]):
            yield {"data": data, "target": target, "pos": None, "str": bool(ti & 1)}
            for pos in range(0, n - 3):
                yield {"data": data, "target": target, "pos": pos}


def fix_strategy(tier):
    def build(data, target, posraw, mode):
        n = len(data)
        pos = None if mode < 2 else posraw % (n - 3)
        return {"data": data, "target": target, "pos": pos, "str": mode == 1}
    return st.builds(build, gen.blob_of(gen.pick((2, gen.uint(4, 12)), (2, gen.uint(13, 64)), (1, gen.uint(65, 600)))),
                     gen.pick((1, st.sampled_from(TARGETS)), (2, gen.nbits(32))),
                     gen.uint(0, 10**4), gen.uint(0, 4))


FACETS = [
    Facet("crc32-short-exhaustive", check_crc32, cases=short_cases, exhaustive=True, distinct=True,
          nontrivial=lambda d: len(d) >= 1, classify=lambda d: ("len=%d" % len(d),),
          shards={"quick": 4, "thorough": 4},
          rule="every byte string of length 0..2 (65 793) against zlib.crc32"),
    Facet("crc32-random", check_crc32, strategy=lambda tier: data_strategy(2048 if tier == "quick" else 8192),
          budget={"quick": 4000, "thorough": 40000},
          nontrivial=lambda d: len(d) >= 1,
          classify=lambda d: ("len<=8" if len(d) <= 8 else "len<=256" if len(d) <= 256 else "len>256",),
          rule="Hypothesis byte strings up to 2 KiB (8 KiB thorough) incl. constant runs"),
    Facet("generic-division", check_generic, strategy=generic_strategy,
          budget={"quick": 2000, "thorough": 40000},
          nontrivial=lambda c: len(c["data"]) >= 1,
          classify=lambda c: ("N%8==0" if c["N"] % 8 == 0 else "N%8!=0", "N=%s" % ("8" if c["N"] == 8 else "64" if c["N"] == 64 else "9..63"),
                              "final=None" if c["final"] is None else "final given"),
          rule="width 8..64, any polynomial/init/final, data <= 40 B, oracle bitwise division"),
    Facet("table-histories", check_tables, strategy=tables_strategy, budget={"quick": 600, "thorough": 10000},
          nontrivial=lambda c: sum(1 for o in c["ops"] if o[0] == "table") >= 2,
          classify=lambda c: ("tables=%d" % min(4, sum(1 for o in c["ops"] if o[0] == "table")),),
          rule="5..12 operations in one process: generate forward/backward tables for several polynomials and widths, then compute with "
               "EARLIER tables (== bitwise division, backward == forward register) and with the built-in CRC-32 (== zlib, crc32_fix hits its target)"),
    Facet("backward-inverse", check_back, strategy=back_strategy,
          budget={"quick": 1500, "thorough": 30000},
          nontrivial=lambda c: len(c["data"]) >= 2,
          classify=lambda c: ("crc32" if c["std"] else "generic", "pos=0" if c["pos"] == 0 else "pos=last" if c["pos"] == len(c["data"]) - 1 else "pos=mid"),
          rule="crc_back_pos / crc32_back_pos == forward register after data[:pos]"),
    Facet("fix-all-positions", check_fix, cases=fix_cases, distinct=True,
          nontrivial=lambda c: len(c["data"]) >= 5,
          classify=lambda c: ("fix" if c["pos"] is None else "fix_pos", "str-target" if c.get("str") else "int-target"),
          exhaustive=False,
          rule="|data| 4..24 (40 thorough) x 6 targets x every admissible position"),
    Facet("fix-random", check_fix, strategy=fix_strategy, budget={"quick": 1500, "thorough": 30000},
          nontrivial=lambda c: len(c["data"]) >= 5,
          classify=lambda c: ("fix" if c["pos"] is None else "fix_pos", "len>64" if len(c["data"]) > 64 else "len<=64"),
          rule="Hypothesis data 4..600 B, any target, any position; validity predicate zlib.crc32(out)==target"),
]
WEIGHT = {"crc32-random": 3, "generic-division": 3, "backward-inverse": 3, "fix-random": 2}
