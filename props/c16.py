"""C16 - Poly: element-wise ring arithmetic, sequence indexing, consistent re-chunking.
Oracle: Python int lists reduced modulo 2^k (k = 0: the integers)."""
import operator, itertools
from hypothesis import strategies as st
from vlib.core import Facet, Violation, ALLOWED, guard, attempt, eq, expect
from vlib import gen

from crysp.poly import Poly, pack
from crysp.bits import Bits

RULE = ("Vectors are int lists over Z/2^k; every result is compared as (coefficient list, ring size).  "
        "Non-trivial = dimensions differ, or both operands non-zero, or a non-empty selection.")
ASSUMPTIONS = ["slices are generated in range with positive step (a negative step may be refused with ValueError; "
               "zero-extension by a stop beyond the end is crysp-specific and not generated)",
               "pack(a,'>L') is checked by value for dimension 1 only; for longer vectors it must be a rearrangement of the little-endian bytes and leave the vector untouched", "index lists for writes have no repeats",
               "pack lays each coefficient out over ceil(k/8) bytes (the behaviour of the pinned tree for ring sizes that are not a multiple of 8)"]

BIN = {"+": operator.add, "-": operator.sub, "^": operator.xor, "&": operator.and_, "|": operator.or_}


INPLACE = {"+": operator.iadd, "-": operator.isub, "^": operator.ixor, "&": operator.iand, "|": operator.ior}


def red(v, k):
    return v & ((1 << k) - 1) if k else v


def m_bin(op, a, b, k):
    d = max(len(a), len(b))
    a = list(a) + [0] * (d - len(a))
    b = list(b) + [0] * (d - len(b))
    return [red(BIN[op](x, y), k) for x, y in zip(a, b)]


def is_poly(p, coeffs, k, sig):
    expect(isinstance(p, Poly), sig + ":type", "Poly", type(p).__name__)
    if list(p.ival) != list(coeffs) or p.size != k or p.dim != len(coeffs):
        raise Violation(sig, {"ival": list(coeffs), "size": k, "dim": len(coeffs)},
                        {"ival": list(p.ival), "size": p.size, "dim": p.dim})


def mk(coeffs, k):
    p = guard(Poly, list(coeffs), k)
    is_poly(p, [red(c, k) for c in coeffs], k, "Poly(list,size)")
    return p


def check_pair(c):
    k, a, b = c["k"], list(c["a"]), list(c["b"])
    A, B = mk(a, k), mk(b, k)
    for op in c.get("ops", "+-^&|"):
        r = guard(BIN[op], A, B)
        is_poly(r, m_bin(op, a, b, k), k, "Poly%sPoly" % op)
        if op != "-":
            r2 = guard(BIN[op], B, A)
            if list(r2.ival) != list(r.ival):
                raise Violation("Poly%sPoly:not-commutative" % op, list(r.ival), list(r2.ival))
        # result does not alias the operands
        if r.dim:
            r.ival[0] = red(r.ival[0] + 1, k)
        is_poly(A, a, k, "Poly%sPoly:operand-changed" % op)
        is_poly(B, b, k, "Poly%sPoly:operand-changed" % op)
    # the augmented forms (x op= y) are the same operators: same value, right operand untouched
    for op in c.get("ops", "+-^&|"):
        X = mk(a, k)
        r = guard(INPLACE[op], X, B)
        is_poly(r, m_bin(op, a, b, k), k, "Poly%s=Poly" % op)
        is_poly(B, b, k, "Poly%s=Poly:right-operand-changed" % op)
    cat = guard(operator.floordiv, A, B)
    is_poly(cat, a + b, k, "Poly//Poly")
    is_poly(A, a, k, "Poly//Poly:operand-changed")
    is_poly(B, b, k, "Poly//Poly:operand-changed")
    expect(cat is not A and cat is not B, "Poly//Poly:result-is-an-operand")
    if cat.dim:
        guard(operator.setitem, cat, 0, red(cat.ival[0] + 1, k))      # writing through the result must not reach the operands
        is_poly(A, a, k, "Poly//Poly:operand-changed-through-result")
        is_poly(B, b, k, "Poly//Poly:operand-changed-through-result")


def check_unary(c):
    k, a = c["k"], list(c["a"])
    A = mk(a, k)
    n = guard(operator.neg, A)
    is_poly(n, [red(-x, k) for x in a], k, "neg")
    z = guard(operator.add, A, n)
    is_poly(z, [0] * len(a), k, "a+(-a)!=0")
    for s in c["shifts"]:
        l = guard(operator.lshift, A, s)
        is_poly(l, [red(x << s, k) for x in a], k, "lshift")
        r = guard(operator.rshift, A, s)
        is_poly(r, [x >> s for x in a], k, "rshift")
    is_poly(A, a, k, "unary:operand-changed")
    eq(guard(len, A), len(a), "len")
    for i, e in enumerate(guard(list, A)):
        if k:
            expect(isinstance(e, Bits) and e.ival == a[i] and e.size == k, "iter", (a[i], k), repr(e))
        else:
            eq(e, a[i], "iter")


def rings_small(tier):
    return (1, 2, 3)


def vectors(k, maxdim):
    vals = range(1 << k)
    for d in range(maxdim + 1):
        for v in itertools.product(vals, repeat=d):
            yield v


def pair_cases(tier, rnd):
    maxdim = 3 if tier == "quick" else 4
    for k in rings_small(tier):
        vs = list(vectors(k, maxdim))
        for a in vs:
            for b in vs:
                yield {"k": k, "a": a, "b": b}


def unary_cases(tier, rnd):
    maxdim = 3 if tier == "quick" else 4
    for k in rings_small(tier):
        for a in vectors(k, maxdim):
            yield {"k": k, "a": a, "shifts": tuple(range(k + 2))}


RINGS = [0, 1, 2, 3, 4, 7, 8, 9, 16, 31, 32, 33, 63, 64]


def coeffs(k, dim):
    if k == 0:
        one = st.tuples(st.booleans(), gen.nbits(70)).map(lambda t: -t[1] if t[0] else t[1])
    else:
        one = gen.nbits(k)
    return st.lists(one, min_size=dim, max_size=dim).map(tuple)


def dims():
    return gen.pick((2, gen.uint(0, 4)), (2, gen.uint(5, 20)), (1, st.sampled_from([0, 1, 16, 20])))


def pair_strategy(tier):
    ring = gen.pick((3, st.sampled_from(RINGS)), (1, gen.uint(0, 64)))
    return ring.flatmap(lambda k: st.tuples(dims(), dims()).flatmap(
        lambda d: st.builds(lambda a, b: {"k": k, "a": a, "b": b}, coeffs(k, d[0]), coeffs(k, d[1]))))


def unary_strategy(tier):
    ring = gen.pick((3, st.sampled_from(RINGS)), (1, gen.uint(0, 64)))
    return ring.flatmap(lambda k: dims().flatmap(
        lambda d: st.builds(lambda a, s: {"k": k, "a": a, "shifts": tuple(sorted(set(s)))}, coeffs(k, d),
                            st.lists(gen.uint(0, (k or 64) + 1), min_size=1, max_size=3))))


def nontriv_pair(c):
    return len(c["a"]) != len(c["b"]) or (any(c["a"]) and any(c["b"]))


def classify_pair(c):
    la, lb = len(c["a"]), len(c["b"])
    return ("k=%s" % (c["k"] if c["k"] in (0, 1, 2, 3, 8, 32, 64) else "other"),
            "dims equal" if la == lb else "left shorter" if la < lb else "left longer",
            "has empty" if 0 in (la, lb) else "no empty")


# ---------------------------------------------------------------------------
# indexing / writes / split / pack

def check_index(c):
    k, a = c["k"], list(c["a"])
    n = len(a)
    A = mk(a, k)
    kind, idx = c["kind"], c["idx"]
    if kind == "int":
        pos, pyi = [idx % n], idx
    elif kind == "slice":
        pos, pyi = list(range(n)[slice(*idx)]), slice(*idx)
    else:
        pos, pyi = [i % n for i in idx], (list(idx) if kind == "list" else tuple(idx))
    neg_step = kind == "slice" and idx[2] is not None and idx[2] < 0
    st_, r = attempt(operator.getitem, A, pyi)
    if st_ == "exc":
        if neg_step and isinstance(r, ValueError):
            return ALLOWED
        raise Violation("read[%s]:exc:%s" % (kind, type(r).__name__), actual=repr(r))
    is_poly(r, [a[i] for i in pos], k, "read[%s]" % kind)
    if r.dim:
        r.ival[0] = red(r.ival[0] + 1, k)
    is_poly(A, a, k, "read[%s]:operand-changed" % kind)
    w = c.get("write")
    if w is None or neg_step:
        return
    if kind != "int" and len(set(pos)) != len(pos):
        return
    form, vals = w["form"], [red(v, k) for v in w["vals"]][:len(pos)]
    vals += [0] * (len(pos) - len(vals))
    # list/tuple/int values are also given unreduced (v + 2^k, v - 2^k): a vector over Z/2^k stores them reduced
    lift = (lambda j, v: v + (1 << k) * (1 + j % 3) if (j + len(a)) % 2 else v - (1 << k)) if k else (lambda j, v: v)
    if kind == "int":
        V = lift(idx, vals[0]) if form != "Bits" or not k else Bits(vals[0], k)
    elif form == "list":
        V = [lift(j, v) for j, v in enumerate(vals)]
    elif form == "tuple":
        V = tuple(lift(j, v) for j, v in enumerate(vals))
    elif form == "Poly":
        V = Poly(list(vals), k)
    elif form == "bytes":
        vals = [v & 0xff for v in vals]
        vals = [red(v, k) for v in vals] if k else vals
        V = bytes(v & 0xff for v in w["vals"][:len(pos)]) + b"\0" * (len(pos) - len(w["vals"][:len(pos)]))
    else:
        V = [Bits(v, k) for v in vals] if k else list(vals)
    guard(operator.setitem, A, pyi, V)
    exp = list(a)
    for p, v in zip(pos, vals):
        exp[p] = v
    is_poly(A, exp, k, "write[%s,%s]" % (kind, form))


def index_strategy(tier):
    ring = gen.pick((3, st.sampled_from(RINGS)), (1, gen.uint(0, 64)))

    def for_ring(k):
        def for_dim(n):
            start = gen.pick((1, st.none()), (4, gen.uint(-n, n)), (2, st.sampled_from([-n - 1, -n - 2, -n - 5, n + 1, n + 3])))
            stop = gen.pick((1, st.none()), (4, gen.uint(-n, n)), (1, st.sampled_from([-n - 1, -n - 3])))      # never beyond the end
            sl = st.tuples(start, stop, st.sampled_from([None, 1, 1, 2, 3, -1])).map(lambda t: ("slice", t))
            it = gen.uint(-n, n - 1).map(lambda i: ("int", i))
            perm = st.permutations(range(n)).flatmap(
                lambda p: st.tuples(gen.uint(0, n), st.booleans(), st.booleans()).map(
                    lambda t: ("list" if t[1] else "tuple", tuple((i - n if t[2] and i % 2 else i) for i in p[:t[0]]))))
            rep = st.lists(gen.uint(-n, n - 1), max_size=8).map(lambda l: ("list", tuple(l)))
            idx = gen.pick((4, sl), (2, it), (2, perm), (1, rep))
            wr = gen.pick((1, st.none()), (3, st.tuples(st.sampled_from(["list", "tuple", "Poly", "bytes", "Bits"]),
                                                        coeffs(k, n))))

            def build(a, ix, w):
                c = {"k": k, "a": a, "kind": ix[0], "idx": ix[1]}
                if w is not None:
                    c["write"] = {"form": w[0], "vals": w[1]}
                return c
            return st.builds(build, coeffs(k, n), idx, wr)
        return gen.pick((3, gen.uint(1, 6)), (2, gen.uint(7, 20))).flatmap(for_dim)
    return ring.flatmap(for_ring)


def index_cases(tier, rnd):
    """every index expression on small vectors over Z/4"""
    k = 2
    top = 3 if tier == "quick" else 4
    for n in range(1, top + 1):
        starts = [None] + list(range(-n - 3, n + 4))
        stops = [None] + list(range(-n - 3, n + 1))          # a stop beyond the end zero-extends (crysp-specific): not generated
        a = tuple(rnd.randrange(1 << k) for _ in range(n))
        newv = tuple(rnd.randrange(1 << k) for _ in range(n))
        for i in range(-n, n):
            yield {"k": k, "a": a, "kind": "int", "idx": i, "write": {"form": "list", "vals": newv}}
        for s in itertools.product(starts, stops, [None, 1, 2, 3]):
            yield {"k": k, "a": a, "kind": "slice", "idx": s,
                   "write": {"form": ["list", "tuple", "Poly", "bytes", "Bits"][(hash(s[2]) + n) % 5], "vals": newv}}
        for L in range(0, n + 1):
            for l in itertools.product(range(-n, n), repeat=L):
                yield {"k": k, "a": a, "kind": "list" if L % 2 else "tuple", "idx": l,
                       "write": {"form": "Poly" if L % 2 else "list", "vals": newv}}


def nontriv_index(c):
    n = len(c["a"])
    if c["kind"] == "int":
        return True
    if c["kind"] == "slice":
        return len(range(n)[slice(*c["idx"])]) > 0
    return len(c["idx"]) > 0


def classify_index(c):
    return (c["kind"], "write:" + c["write"]["form"] if c.get("write") else "read-only")


def check_chunk(c):
    k, a = c["k"], list(c["a"])
    A = mk(a, k)
    what = c["what"]
    if what == "split":
        k2, big = c["k2"], c["bigend"]
        r = guard(A.split, k2, big) if big else guard(A.split, k2)
        exp = []
        for x in a:
            pieces = [(x >> (k2 * j)) & ((1 << k2) - 1) for j in range(k // k2)]
            exp += pieces[::-1] if big else pieces
        is_poly(r, exp, k2, "split(bigend=%s)" % big)
        if k2 != k:
            is_poly(A, a, k, "split:operand-changed")
    elif what == "pack":
        nb = (k + 7) // 8          # little-endian layout of each coefficient over ceil(k/8) bytes
        exp = b"".join(x.to_bytes(nb, "little") for x in a)
        eq(guard(pack, A), exp, "pack")
        eq(guard(pack, A, "<L"), exp, "pack('<L')")
        if len(a) == 1:
            eq(guard(pack, A, ">L"), a[0].to_bytes(nb, "big"), "pack('>L',dim1)")
        else:
            # for longer vectors only what every reading of "big-endian" agrees on: the same number of bytes, the same
            # multiset of bytes, and (below) an untouched operand
            r = guard(pack, A, ">L")
            expect(isinstance(r, bytes) and sorted(r) == sorted(exp), "pack('>L'):not-a-rearrangement-of-the-little-endian-bytes", len(exp), repr(r)[:60])
        is_poly(A, a, k, "pack:operand-changed")
        eq(guard(pack, A), exp, "pack:second-call")
    elif what == "bytes":
        s = bytes(x & 0xff for x in a)
        P = guard(Poly, s)
        is_poly(P, list(s), 8, "Poly(bytes)")
        eq(guard(pack, P), s, "pack(Poly(bytes))")
    elif what == "ctor":
        d = c["dim"]
        P = guard(Poly, list(a), k, d)
        exp = [red(x, k) for x in a]
        if d > 0:
            exp = (exp + [0] * d)[:d]
        is_poly(P, exp, k, "Poly(list,size,dim)")
        Q = guard(Poly, P)
        is_poly(Q, exp, k, "Poly(Poly)")
        if Q.dim:
            Q.ival[0] = red(Q.ival[0] + 1, k)
            is_poly(P, exp, k, "Poly(Poly):aliases-source")
        if a:
            is_poly(guard(Poly, a[0], k), [red(a[0], k)], k, "Poly(int,size)")
            if k:
                is_poly(guard(Poly, Bits(red(a[0], k), k), k), [red(a[0], k)], k, "Poly(Bits,size)")


def chunk_strategy(tier):
    def split_case(k):
        divs = [d for d in range(1, k) if k % d == 0] or [k]
        return st.builds(lambda a, k2, big: {"k": k, "a": a, "what": "split", "k2": k2, "bigend": big},
                         dims().flatmap(lambda d: coeffs(k, d)), st.sampled_from(divs + [k]), st.booleans())
    sp = st.sampled_from([2, 4, 6, 8, 12, 16, 24, 32, 48, 64]).flatmap(split_case)
    pk = gen.pick((2, st.sampled_from([8, 16, 24, 32, 40, 64])), (2, gen.uint(1, 64))).flatmap(
        lambda k: dims().flatmap(lambda d: coeffs(k, d)).map(lambda a: {"k": k, "a": a, "what": "pack"}))
    by = dims().flatmap(lambda d: coeffs(8, d)).map(lambda a: {"k": 8, "a": a, "what": "bytes"})
    ct = st.sampled_from(RINGS).flatmap(lambda k: st.builds(
        lambda a, d: {"k": k, "a": a, "what": "ctor", "dim": d},
        dims().flatmap(lambda d: coeffs(max(k, 1) + 3 if k else 0, d)), gen.uint(0, 24)))
    return gen.pick((3, sp), (3, pk), (1, by), (2, ct))



# ---------------------------------------------------------------------------
# histories: observe / mutate / observe again on one vector (model-based interpreter over an op list)
def check_history(c):
    k = c["k"]
    cur = [red(x, k) for x in c["a"]]
    A = mk(cur, k)
    for op in c["ops"]:
        kind = op[0]
        n = len(cur)
        clamp = lambda t: tuple(v if v is None or j == 2 else (v if j == 0 else min(n, v)) for j, v in enumerate(t))
        if kind == "set":
            if n == 0:
                continue
            i = op[1] % n
            guard(operator.setitem, A, i - n if op[3] else i, op[2])
            cur[i] = red(op[2], k)
        elif kind == "setslice":
            sl = slice(*clamp(op[1]))       # in-range slices only (a stop beyond the end zero-extends: crysp-specific)
            pos = list(range(n)[sl])
            vals = [red(v, k) for v in (list(op[2]) * (len(pos) + 1))[:len(pos)]]
            guard(operator.setitem, A, sl, list(vals))
            for p_, v in zip(pos, vals):
                cur[p_] = v
        elif kind == "setlist":
            if n == 0:
                continue
            pos = []
            for j in op[1]:
                if j % n not in pos:
                    pos.append(j % n)
            vals = [red(v, k) for v in (list(op[2]) * (len(pos) + 1))[:len(pos)]]
            guard(operator.setitem, A, list(pos), Poly(vals, k) if vals else [])
            for p_, v in zip(pos, vals):
                cur[p_] = v
        elif kind == "dim":
            A.dim = op[1]
            cur = (cur + [0] * op[1])[:op[1]]
        elif kind == "split":
            if k == 0:
                continue
            divs = [d for d in range(1, k + 1) if k % d == 0]
            k2 = divs[op[1] % len(divs)]
            big = op[2]
            r = guard(A.split, k2, big)
            exp = []
            for x in cur:
                pieces = [(x >> (k2 * j)) & ((1 << k2) - 1) for j in range(k // k2)]
                exp += pieces[::-1] if big else pieces
            is_poly(r, exp, k2, "history:split")
        elif kind == "pack":
            if k == 0:
                continue
            attempt(pack, A, ">L")         # an observer in the other byte order first (its value is not judged here)
            eq(guard(pack, A), b"".join(x.to_bytes((k + 7) // 8, "little") for x in cur), "history:pack")
        elif kind == "read":
            sl = slice(*clamp(op[1]))
            is_poly(guard(operator.getitem, A, sl), cur[sl], k, "history:read[slice]")
            if n:
                i = op[2] % n
                is_poly(guard(operator.getitem, A, i - n), [cur[i]], k, "history:read[int]")
        elif kind == "arith":
            o = "+-^&|"[op[1] % 5]
            b = [red(v, k) for v in op[2]]
            is_poly(guard(BIN[o], A, Poly(list(b), k)), m_bin(o, cur, b, k), k, "history:Poly%sPoly" % o)
            is_poly(guard(operator.neg, A), [red(-x, k) for x in cur], k, "history:neg")
        elif kind == "iter":
            got = [int(e) for e in guard(list, A)]
            eq(got, list(cur), "history:iter")
            eq(guard(len, A), n, "history:len")
        else:
            raise AssertionError(kind)
        is_poly(A, cur, k, "history:%s:vector!=model" % kind)


def history_strategy(tier):
    maxops = 10 if tier == "quick" else 24
    ring = st.sampled_from([0, 1, 3, 8, 12, 16, 32, 64])

    def for_ring(k):
        val = gen.nbits(k or 40)
        arg = gen.pick((1, st.none()), (3, gen.uint(-12, 12)))
        sl = st.tuples(arg, arg, st.sampled_from([None, 1, 1, 2, 3]))
        ops = gen.pick(
            (3, st.tuples(st.just("set"), gen.uint(0, 100), val, st.booleans())),
            (2, st.tuples(st.just("setslice"), sl, st.lists(val, min_size=1, max_size=4).map(tuple))),
            (2, st.tuples(st.just("setlist"), st.lists(gen.uint(0, 100), max_size=5).map(tuple), st.lists(val, min_size=1, max_size=4).map(tuple))),
            (1, st.tuples(st.just("dim"), gen.uint(1, 12))),
            (3, st.tuples(st.just("split"), gen.uint(0, 20), st.booleans())),
            (2, st.tuples(st.just("pack"))),
            (2, st.tuples(st.just("read"), sl, gen.uint(0, 100))),
            (2, st.tuples(st.just("arith"), gen.uint(0, 4), st.lists(val, max_size=6).map(tuple))),
            (1, st.tuples(st.just("iter"))),
        )
        return st.builds(lambda a, o: {"k": k, "a": a, "ops": tuple(o)}, gen.uint(0, 8).flatmap(lambda d: coeffs(k, d)),
                         st.lists(ops, min_size=2, max_size=maxops))
    return ring.flatmap(for_ring)


FACETS = [
    Facet("pairs-exhaustive", check_pair, cases=pair_cases, exhaustive=True, distinct=True,
          nontrivial=nontriv_pair, classify=classify_pair, shards={"quick": 16, "thorough": 64},
          rule="rings Z/2, Z/4, Z/8; every vector of dimension 0..3 (0..4 thorough); every ordered pair; + - ^ & | in both orders and //"),
    Facet("unary-exhaustive", check_unary, cases=unary_cases, exhaustive=True, distinct=True,
          nontrivial=lambda c: any(c["a"]), classify=lambda c: ("k=%d" % c["k"], "dim=%d" % len(c["a"])),
          shards={"quick": 2, "thorough": 8},
          rule="same vectors: unary minus, a+(-a)==0, shifts 0..k+1, iteration, len"),
    Facet("pairs-sampled", check_pair, strategy=pair_strategy, budget={"quick": 4000, "thorough": 80000},
          nontrivial=nontriv_pair, classify=classify_pair,
          rule="rings k in {0,1,2,3,4,7,8,9,16,31,32,33,63,64} + uniform 0..64, dimensions 0..20 (negative coefficients for k=0)"),
    Facet("unary-sampled", check_unary, strategy=unary_strategy, budget={"quick": 2000, "thorough": 40000},
          nontrivial=lambda c: any(c["a"]), classify=lambda c: ("k=0" if c["k"] == 0 else "k>0",),
          rule="same rings: neg, a+(-a), shifts"),
    Facet("index-exhaustive", check_index, cases=index_cases, exhaustive=True, distinct=True,
          nontrivial=nontriv_index, classify=classify_index, shards={"quick": 4, "thorough": 8},
          rule="Z/4, dimension 1..3 (1..4): every int index, every slice (start in {None,-n-3..n+3}, stop in {None,-n-3..n}, step in {None,1,2,3}), every index "
               "list/tuple of length <= n incl. repeats and negative entries; read, then write through it"),
    Facet("index-sampled", check_index, strategy=index_strategy, budget={"quick": 5000, "thorough": 100000}, fuzz={"thorough": 100000},
          nontrivial=nontriv_index, classify=classify_index,
          rule="all rings, dimension 1..20, int/slice/list/tuple indices, writes with list/tuple/Poly/bytes/Bits values"),
    Facet("chunking", check_chunk, strategy=chunk_strategy, budget={"quick": 3000, "thorough": 60000},
          nontrivial=lambda c: len(c["a"]) > 0, classify=lambda c: (c["what"],) + (("bigend",) if c.get("bigend") else ()),
          rule="split(k') for every divisor k' of k (both endians), pack for every ring size 1..64, Poly(bytes), constructors with dim"),
    Facet("observe-mutate-histories", check_history, strategy=history_strategy, budget={"quick": 3000, "thorough": 60000},
          nontrivial=lambda c: len(c["ops"]) >= 2,
          classify=lambda c: tuple(sorted(set(o[0] for o in c["ops"]))),
          rule="op lists on one vector mixing observers (split/pack/read/iter/arithmetic) and mutators (set by int/slice/list, dim change): "
               "every observation and the vector itself are compared with the model after every step (stale caches, aliasing)"),
]
WEIGHT = {"pairs-exhaustive": 10, "index-sampled": 3, "pairs-sampled": 3}
