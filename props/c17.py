"""C17 - MD6 digests equal the specification for every size, mode, key and message.
Oracle: ref/md6.py (validated by the three worked examples of the MD6 report and MD6-256("")/("abc"))."""
from hypothesis import strategies as st
from vlib.core import Facet, Violation, ALLOWED, guard, attempt, eq, expect
from vlib import gen
from ref import md6 as R

from crysp.md import MD6

RULE = ("Case = (d, L, key, rounds, message, bit length).  Output == last d bits of the root, left-aligned in ceil(d/8) bytes.  "
        "Non-trivial = at least 2 compression calls, or a key, or a bit length that is not a multiple of 8.")
ASSUMPTIONS = ["the reference is my reading of the MD6 report, validated by its worked examples and the published MD6-256 digests",
               "round counts 1..8 are set through the public 'rounds' attribute (as the repository's tests do) to afford large trees",
               "keys are at most 64 bytes; an explicit bit length is at least 1"]
SELFTESTS = [("md6", R.selftest)]


def ncompress(nbytes, L):
    """number of compression calls and tree height for a message of nbytes"""
    n, calls, level = nbytes, 0, 0
    while True:
        level += 1
        if level == L + 1:
            calls += max(1, -(-n // 384))
            return calls, level
        blocks = max(1, -(-n // 512))
        calls += blocks
        n = blocks * 128
        if blocks == 1:
            return calls, level


def check_md6(c):
    d, L, key, r, M, bl = c["d"], c["L"], c["key"], c["rounds"], c["M"], c.get("bitlen")
    obj = guard(MD6, d, key, L) if key else guard(MD6, d, L=L)
    if r is not None:
        obj.rounds = r
    got = guard(obj, M) if bl is None else guard(obj, M, bitlen=bl)
    exp = R.md6(M, bl, d=d, key=key, L=L, r=r)
    expect(isinstance(got, bytes), "md6:type", "bytes", type(got).__name__)
    eq(len(got), (d + 7) // 8, "md6:output-length")
    if got != exp:
        raise Violation("md6!=spec:" + cause(c), exp, got)


def mode_of(c):
    n = (c["bitlen"] + 7) // 8 if c.get("bitlen") is not None else len(c["M"])
    calls, height = ncompress(n, c["L"])
    if c["L"] == 0:
        return "SEQ-only"
    return "hybrid(PAR+SEQ)" if height == c["L"] + 1 else "PAR-only"


def cause(c):
    parts = [mode_of(c)]
    if c["key"] and "SEQ" in parts[0]:
        parts.append("keyed")
    if c["d"] % 8 and "SEQ" in parts[0]:
        parts.append("d%8!=0")
    if c.get("bitlen") is not None:
        n = (c["bitlen"] + 7) // 8
        if ncompress(n, c["L"])[1] > 1:
            parts.append("bitlen,levels>1")
    return ",".join(parts)


def classify(c):
    n = (c["bitlen"] + 7) // 8 if c.get("bitlen") is not None else len(c["M"])
    calls, height = ncompress(n, c["L"])
    lab = [mode_of(c), "height=%d" % min(4, height), "L=%d" % c["L"], "d%8==0" if c["d"] % 8 == 0 else "d%8!=0",
           "keyed" if c["key"] else "unkeyed", "default rounds" if c["rounds"] is None else "rounds<=8"]
    if c.get("bitlen") is not None:
        lab.append("bitlen%8!=0" if c["bitlen"] % 8 else "bitlen%8==0")
    lab.append("compressions=%s" % ("1" if calls == 1 else "2-5" if calls <= 5 else "6-21" if calls <= 21 else ">21"))
    return tuple(lab)


def nontriv(c):
    n = (c["bitlen"] + 7) // 8 if c.get("bitlen") is not None else len(c["M"])
    return ncompress(n, c["L"])[0] >= 2 or bool(c["key"]) or (c.get("bitlen") or 0) % 8 != 0


def dsizes():
    return gen.pick((3, st.sampled_from([1, 7, 8, 9, 12, 128, 160, 224, 256, 384, 511, 512])), (1, gen.uint(1, 512)))


def keys():
    return gen.pick((3, st.just(b"")), (2, gen.blob_of(gen.pick((1, st.sampled_from([1, 8, 63, 64])), (1, gen.uint(1, 64))))))


def lengths(maxleaves):
    # |M| mod 512 and mod 384 boundaries emphasised
    specials = [0, 1, 383, 384, 385, 511, 512, 513, 767, 768, 769, 1023, 1024, 1025, 1535, 1536, 1537, 2047, 2048, 2049]
    opts = [(3, st.sampled_from(specials)), (2, gen.uint(0, 2048))]
    if maxleaves > 4:
        opts += [(2, gen.uint(2049, 8192)), (1, st.sampled_from([8191, 8192, 8193, 16 * 512 + 1]))]
    if maxleaves > 16:
        opts += [(1, gen.uint(8193, min(maxleaves, 70) * 512)), (1, st.sampled_from([8193, 64 * 512, 64 * 512 + 1]))]
    return gen.pick(*opts)


def fast_strategy(tier):
    """small round counts: big trees are affordable"""
    maxleaves = 36 if tier == "quick" else 70

    def build(d, L, key, r, M, lm, dd, extra):
        c = {"d": d, "L": L, "key": key, "rounds": r, "M": M}
        if lm and M:
            c["bitlen"] = 8 * len(M) - (dd if lm < 3 else 0)
            if lm == 2:
                c["M"] = M + extra
        return c
    return st.builds(build, dsizes(), st.sampled_from([0, 1, 2, 3, 64]), keys(), gen.uint(1, 8), gen.blob_of(lengths(maxleaves)),
                     gen.uint(0, 3), gen.uint(1, 7), gen.blob_of(gen.uint(1, 30)))


def default_strategy(tier):
    """default round count (40 + d/4, at least 80 when keyed): keep to a few compressions"""
    def build(d, L, key, M, lm, dd):
        c = {"d": d, "L": L, "key": key, "rounds": None, "M": M}
        if lm and M:
            c["bitlen"] = 8 * len(M) - dd
        return c
    ln = gen.pick((2, st.sampled_from([0, 1, 3, 64, 383, 384, 385, 511, 512, 513])), (2, gen.uint(0, 700)), (1, gen.uint(701, 1300)))
    return st.builds(build, dsizes(), st.sampled_from([0, 1, 2, 64]), keys(), gen.blob_of(ln), gen.uint(0, 1), gen.uint(1, 7))


def sweep_cases(tier, rnd):
    """every digest size 1..512 once; every L' mod 8 on 1, 2 and 3 tree levels for each mode parameter"""
    def rb(n):
        return bytes(rnd.randrange(256) for _ in range(n))
    for d in range(1, 513):
        if tier == "quick" and d % 8 not in (0, 1, 7) and d % 5:
            continue
        yield {"d": d, "L": [64, 0, 1][d % 3], "key": rb(d % 9) if d % 4 == 0 else b"", "rounds": 2, "M": rb([3, 600, 900][d % 3])}
    for L in (0, 1, 2, 3, 64):
        for n in (1, 384, 512, 513, 2049, 2500):
            M = rb(n)
            for dd in range(0, 8):
                yield {"d": [256, 160, 17][dd % 3], "L": L, "key": b"k" * (dd % 3), "rounds": 3, "M": M, "bitlen": 8 * n - dd}


def check_history(c):
    obj = guard(MD6, c["d"], c["key"], c["L"]) if c["key"] else guard(MD6, c["d"], L=c["L"])
    obj.rounds = c["rounds"]
    rounds = c["rounds"]
    sib = None
    if c.get("sib"):
        # another configuration (digest size, key, mode, rounds), built after obj and used between its calls
        sd, sL, sr = {8: 160, 160: 256, 256: 300, 300: 512, 512: 8}[c["d"]], {0: 64, 1: 0, 64: 1}[c["L"]], c["rounds"] % 4 + 1
        skey = b"" if c["key"] else b"sibling key"
        sib = guard(MD6, sd, skey, sL) if skey else guard(MD6, sd, L=sL)
        sib.rounds = sr
    for i, entry in enumerate(c["msgs"]):
        if sib is not None and i % 2 == 1:
            sm = bytes(range(i, i + 90))
            if guard(sib, sm) != R.md6(sm, None, d=sd, key=skey, L=sL, r=sr):
                raise Violation("md6:reused-object:sibling-object!=spec", None, None)
        M, bl = entry[0], entry[1]
        if len(entry) > 2:
            rounds = obj.rounds = entry[2]      # the round count is the object's public knob (the repository's tests set it too)
        if bl is not None and bl > 8 * len(M):
            attempt(obj, M, bitlen=bl)    # over-long bit length: refused or not, only the calls after it are judged
            continue
        got = guard(obj, M) if bl is None else guard(obj, M, bitlen=bl)
        exp = R.md6(M, bl, d=c["d"], key=c["key"], L=c["L"], r=rounds)
        if got != exp:
            raise Violation("md6:reused-object!=spec", {"call": i, "out": exp}, {"call": i, "out": got})


def history_strategy(tier):
    msg = st.tuples(gen.blob_of(gen.pick((2, gen.uint(0, 600)), (1, gen.uint(601, 2600)))), gen.uint(0, 9), gen.pick((2, st.just(0)), (1, gen.uint(1, 6)))).map(
        lambda t: (t[0], 8 * len(t[0]) + 3 if t[1] == 9 else None if t[1] > 6 or not t[0] else 8 * len(t[0]) - t[1]) + ((t[2],) if t[2] else ()))
    return st.builds(lambda d, L, key, r, msgs, sib: {"d": d, "L": L, "key": key, "rounds": r, "sib": sib,
                                                 "msgs": tuple(msgs) + ((b"after", None),) * (msgs[-1][1] is not None and msgs[-1][1] > 8 * len(msgs[-1][0]))},
                     st.sampled_from([8, 160, 256, 300, 512]), st.sampled_from([0, 1, 64]), keys(), gen.uint(1, 4), st.lists(msg, min_size=2, max_size=4), st.booleans())


FACETS = [
    Facet("sizes-and-bit-lengths", check_md6, cases=sweep_cases, nontrivial=nontriv, classify=classify, shards={"quick": 16, "thorough": 32},
          rule="every digest size d = 1..512 (every d%8 in {0,1,7} and every 5th in the quick tier) over L in {64,0,1}; every bit-length residue "
               "L'%8 on 1-, 2- and 3-level inputs for each mode parameter L in {0,1,2,3,64}"),
    Facet("trees-fast-rounds", check_md6, strategy=fast_strategy, budget={"quick": 4000, "thorough": 40000}, shards={"quick": 16, "thorough": 32},
          nontrivial=nontriv, classify=classify, suppress_too_slow=True,
          rule="rounds 1..8; d biased on {1,7,8,9,12,128,160,224,256,384,511,512}; L in {0,1,2,3,64}; key 0..64 bytes; |M| biased on the "
               "512- and 384-byte block boundaries, up to 36 (70) leaves = 4 tree levels; bit lengths incl. explicit multiples of 8 and prefixes"),
    Facet("default-rounds", check_md6, strategy=default_strategy, budget={"quick": 800, "thorough": 6000}, shards={"quick": 16, "thorough": 32},
          nontrivial=nontriv, classify=classify, suppress_too_slow=True,
          rule="default round count (40+d/4, >= 80 keyed), messages up to 1300 bytes"),
    Facet("reused-object", check_history, strategy=history_strategy, budget={"quick": 800, "thorough": 8000}, shards={"quick": 16, "thorough": 32},
          nontrivial=lambda c: True, suppress_too_slow=True,
          classify=lambda c: ("L=%d" % c["L"], "rounds changed between calls" if any(len(e) > 2 for e in c["msgs"][1:]) else "rounds fixed",
                              "has over-long bitlen call" if any(e[1] is not None and e[1] > 8 * len(e[0]) for e in c["msgs"]) else "all calls valid",
                              "sibling object with another configuration" if c.get("sib") else "no sibling"),
          rule="2..5 messages (byte and bit lengths) hashed one after the other by ONE MD6 object, the round count raised or lowered between "
               "calls in a third of them, one call in ten with a bit length beyond the data (not judged, the calls after it are)"),
]
WEIGHT = {"trees-fast-rounds": 8, "default-rounds": 8, "sizes-and-bit-lengths": 5}
