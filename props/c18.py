"""C18 - The white-box DES tables compute exactly DES under the embedded key.
Each generated table network (KT, M1, M2, M3) is a 'program'; it is validated against ref/des.py (FIPS 46-3) and
against crysp's own DES on the 64 single-bit blocks, the zero and all-one blocks and random blocks."""
from hypothesis import strategies as st
from vlib.core import Facet, Violation, ALLOWED, guard, attempt, eq, expect
from vlib import gen
from ref import des as RD

from crysp.bits import Bits
from crysp.des import DES
from crysp import wb

RULE = ("Case = (64-bit key, list of blocks).  The table network is generated for the key, its shape is checked (16x12 tables of 256 "
        "byte values; tables 8..11, M1, M2, M3 key-independent), then every block is encrypted through the tables and compared "
        "with FIPS 46-3.  Non-trivial = key not a constant-byte string and block != 0.")
ASSUMPTIONS = ["ref/des.py validated by FIPS 81 / NBS vectors, weak keys, complementation and the OpenSSL CLI when present"]
SELFTESTS = [("des", RD.selftest)]

_FIXED = {}


def tables_for(key):
    bK = Bits(key, 64)
    KT = []
    for r in range(16):
        s, t = guard(wb.table_rKT, r, bK)
        KT.append(t)
    return KT, guard(wb.table_M1), guard(wb.table_M2)[0], guard(wb.table_M3)


def check_program(c):
    key = c["key"]
    KT, M1, M2, M3 = tables_for(key)
    # shape: total maps 0..255 -> bytes
    eq(len(KT), 16, "tables:rounds")
    for r in range(16):
        eq(len(KT[r]), 12, "tables:tables-per-round")
        for n in range(12):
            T = KT[r][n]
            if len(T) != 256 or not all(isinstance(x, int) and 0 <= x <= 255 for x in T):
                raise Violation("tables:not-a-total-byte-map", "256 ints in 0..255", {"round": r, "table": n, "len": len(T)})
    eq(len(M1), 96, "M1:length")
    eq(len(M2), 96, "M2:rows")
    eq(len(M3), 64, "M3:length")
    # key-independent parts are the same for every key
    fixed = (tuple(tuple(KT[r][n] for n in range(8, 12)) for r in range(16)), tuple(M1), tuple(int(x) for x in M2), tuple(M3))
    if "ref" not in _FIXED:
        KT0, a, b, d = tables_for(bytes(8))
        _FIXED["ref"] = (tuple(tuple(KT0[r][n] for n in range(8, 12)) for r in range(16)), tuple(a), tuple(int(x) for x in b), tuple(d))
    if fixed != _FIXED["ref"]:
        raise Violation("tables:key-independent-part-differs-between-keys", None, None)
    if c.get("parity_twin"):
        KT2, _, _, _ = tables_for(bytes(x ^ 1 for x in key))
        if tuple(map(tuple, KT2)) != tuple(map(tuple, KT)):
            raise Violation("tables:depend-on-parity-bits", None, None)
    W = guard(wb.WhiteDES, KT, M1, M2, M3)
    own = guard(DES, key)
    for blk in c["blocks"]:
        got = guard(W.enc, blk)
        exp = RD.enc(key, blk)
        expect(isinstance(got, bytes) and len(got) == 8, "whitedes:enc:type/length", 8, repr(got)[:60])
        if got != exp:
            raise Violation("whitedes!=fips46-3", {"block": blk, "ct": exp}, {"block": blk, "ct": got})
        if c.get("cross") and guard(own.enc, blk) != exp:
            raise Violation("des!=fips46-3", exp, None)


SPECIAL_KEYS = [bytes.fromhex(k) for k in RD.WEAK + [x for p in RD.SEMIWEAK for x in p]] + [bytes(8), b"\xff" * 8]


def std_blocks(rnd, nrand):
    b = [(1 << i).to_bytes(8, "big") for i in range(64)] + [bytes(8), b"\xff" * 8]
    b += [bytes(rnd.randrange(256) for _ in range(8)) for _ in range(nrand)]
    return tuple(b)


def program_cases(tier, rnd):
    nkeys = 64 if tier == "quick" else 900
    for i, k in enumerate(SPECIAL_KEYS):
        yield {"key": k, "blocks": std_blocks(rnd, 4), "parity_twin": i % 3 == 0, "cross": True}
    for i in range(nkeys):
        k = bytes(rnd.randrange(256) for _ in range(8))
        yield {"key": k, "blocks": std_blocks(rnd, 4), "parity_twin": i % 5 == 0, "cross": i % 4 == 0}
    for i in range(64):          # single-bit keys
        k = (1 << i).to_bytes(8, "big")
        yield {"key": k, "blocks": std_blocks(rnd, 2)[::3], "parity_twin": False, "cross": False}


def program_strategy(tier):
    key = gen.pick((4, gen.blob(8)), (1, st.sampled_from(SPECIAL_KEYS)))
    return st.builds(lambda k, bl, p: {"key": k, "blocks": tuple(bl), "parity_twin": p, "cross": True},
                     key, st.lists(gen.blob(8), min_size=3, max_size=10), st.booleans())


def check_side_by_side(c):
    """two (or three) networks generated side by side: round tables requested in a generated interleaving, ONE set of
    key-independent M1/M2/M3 objects handed to every WhiteDES, all networks alive and used alternately"""
    keys = c["keys"]
    bK = [Bits(k, 64) for k in keys]
    KT = [[None] * 16 for _ in keys]
    nxt = [0] * len(keys)
    for who in c["schedule"] + tuple(range(len(keys))) * 16:
        who %= len(keys)
        if nxt[who] < 16:
            KT[who][nxt[who]] = guard(wb.table_rKT, nxt[who], bK[who])[1]
            nxt[who] += 1
    M1, M2, M3 = guard(wb.table_M1), guard(wb.table_M2)[0], guard(wb.table_M3)
    nets = [guard(wb.WhiteDES, KT[i], M1, M2, M3) for i in range(len(keys))]
    for blk in c["blocks"]:
        for i, W in enumerate(nets):
            got = guard(W.enc, blk)
            exp = RD.enc(keys[i], blk)
            if got != exp:
                raise Violation("whitedes:side-by-side!=fips46-3", {"net": i, "block": blk, "ct": exp}, {"net": i, "block": blk, "ct": got})
    for i, k in enumerate(keys):
        if (bK[i].ival, bK[i].size) != (Bits(k, 64).ival, 64):
            raise Violation("whitedes:side-by-side:key-vector-changed", None, None)


def side_by_side_strategy(tier):
    key = gen.pick((4, gen.blob(8)), (1, st.sampled_from(SPECIAL_KEYS)))
    blocks = st.lists(gen.pick((3, gen.blob(8)), (1, st.sampled_from([bytes(8), b"\xff" * 8, b"\x80" + bytes(7), bytes(7) + b"\x01"]))),
                      min_size=3, max_size=6)
    return st.builds(lambda ks, sch, bl: {"keys": tuple(ks), "schedule": tuple(sch), "blocks": tuple(bl)},
                     st.lists(key, min_size=2, max_size=3, unique=True), st.lists(gen.uint(0, 2), min_size=0, max_size=40), blocks)


def evidence_extra(per_facet):
    return {"programs": sum(v["evaluations"] for v in per_facet.values()),
            "disagreements_checked": 0}


FACETS = [
    Facet("programs-standard-blocks", check_program, cases=program_cases, shards={"quick": 16, "thorough": 32},
          nontrivial=lambda c: len(set(c["key"])) > 1, classify=lambda c: ("special key" if c["key"] in SPECIAL_KEYS else "random key",
                                                                        "parity twin checked" if c.get("parity_twin") else "no twin"),
          rule="4 weak + 12 semi-weak + zero + all-one keys, 64 (900) random keys, all 64 single-bit keys; per program the 64 single-bit blocks, zero, "
               "all-ones and random blocks; table shape; key-independent tables equal across keys; tables identical for keys differing only in parity bits"),
    Facet("programs-random-blocks", check_program, strategy=program_strategy, budget={"quick": 96, "thorough": 1500},
          shards={"quick": 16, "thorough": 32}, suppress_too_slow=True,
          nontrivial=lambda c: len(set(c["key"])) > 1, classify=lambda c: ("special key" if c["key"] in SPECIAL_KEYS else "random key",),
          rule="random keys (1/5 special), 3..10 random/constant/single-bit blocks each"),
    Facet("programs-side-by-side", check_side_by_side, strategy=side_by_side_strategy, budget={"quick": 32, "thorough": 600},
          shards={"quick": 16, "thorough": 32}, suppress_too_slow=True,
          nontrivial=lambda c: True, classify=lambda c: ("networks=%d" % len(c["keys"]), "interleaved generation" if len(set(c["schedule"])) > 1 else "one after the other"),
          rule="2..3 keys: round tables generated in a random interleaving, ONE M1/M2/M3 object set shared by all WhiteDES objects, networks used "
               "alternately on 3..6 blocks, each against FIPS 46-3; the callers' key vectors unchanged"),
]
WEIGHT = {"programs-standard-blocks": 5}
