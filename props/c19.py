"""C19 - TLSH/Nilsimsa: well-formed reproducible digests, distances behave as distances.
Oracle: ref/tlsh.py (model of the TLSH paper / Nilsimsa 0.2.4, pinned by the reference vectors)."""
import operator
from hypothesis import strategies as st
from vlib.core import Facet, Violation, ALLOWED, guard, attempt, eq, expect
from vlib import gen
from ref import tlsh as R

from crysp.tlsh import TLSH, distance as tdistance, tlsh as tlsh_singleton
from crysp.nilsimsa import Nilsimsa, distance as ndistance

RULE = ("Case = (configuration, data, force).  Digest in {None} U bytes of length chklen+2+buckets/4 and equal to the model; an input that is too "
        "short or too uniform gives None, never an exception.  Non-trivial = the digest is not None / the two digests differ.")
ASSUMPTIONS = ["the TLSH model follows the paper and the reference vectors; gates: at least 50 bytes (forced) / 256 bytes, more than half of the buckets non-zero",
               "distances are compared between digests of the same configuration"]
SELFTESTS = [("tlsh", R.selftest)]

CONFIGS = [(b, w, c) for b in (48, 128, 256) for w in (4, 5, 6, 7, 8) for c in (1, 3)]


def diglen(b, c):
    return c + 2 + b // 4


def check_tlsh(c):
    b, w, ck, data, force = c["buckets"], c["window"], c["chklen"], c["data"], c["force"]
    obj = tlsh_singleton if c.get("singleton") and (b, w, ck) == (128, 5, 1) else guard(TLSH, b, w, ck)
    st_, got = attempt(obj, data, force) if force else attempt(obj, data)
    exp = R.tlsh_model(data, b, w, ck, force)
    if st_ == "exc":
        raise Violation("tlsh:exception-instead-of-%s" % ("None" if exp is None else "digest"), exp, "%s: %s" % (type(got).__name__, str(got)[:80]))
    if exp is None:
        if got is not None:
            raise Violation("tlsh:digest-for-unhashable-input", None, got)
        return
    expect(isinstance(got, bytes), "tlsh:type", "bytes", type(got).__name__)
    eq(len(got), diglen(b, ck), "tlsh:digest-length")
    if got != exp:
        raise Violation("tlsh!=model", exp, got)
    # re-loading
    t2 = guard(TLSH, b, w, ck)
    r = guard(t2.from_hash, got)
    cks, L, q1, q2, code = R.header_fields(got, ck)
    eq((bytes(r.checksum), r.Lvalue, r.q1_ratio, r.q2_ratio, bytes(r.tmp_code)), (cks, L, q1, q2, code), "from_hash:header-fields")
    eq(guard(r.digest).lsh_code, got, "from_hash:reserialize")


def data_strategy(tier):
    top = 4000 if tier == "thorough" else 1500
    ln = gen.pick((2, st.sampled_from([0, 3, 4, 49, 50, 51, 255, 256, 257, 656, 657])), (1, gen.uint(0, 60)), (4, gen.uint(50, 700)),
                  (2, gen.uint(701, top)), (1, st.sampled_from([3199, 3200] if tier == "thorough" else [1000])))

    def content(n):
        rnd = st.binary(min_size=n, max_size=n)
        low = st.tuples(gen.uint(1, 4), st.binary(min_size=n, max_size=n)).map(lambda t: bytes(65 + (x % t[0]) for x in t[1]))
        runs = st.tuples(st.binary(min_size=4, max_size=4), gen.uint(1, 60)).map(
            lambda t: b"".join(bytes([t[0][i % 4]]) * t[1] for i in range(n // t[1] + 1))[:n])
        text = st.binary(min_size=n, max_size=n).map(lambda b: bytes(b" etaoinshrdlu.,\n"[x % 16] for x in b))
        return gen.pick((3, rnd), (2, low), (1, runs), (2, text))
    return ln.flatmap(content)


def tlsh_strategy(tier):
    return st.builds(lambda cfg, d, f, s: {"buckets": cfg[0], "window": cfg[1], "chklen": cfg[2], "data": d, "force": f, "singleton": s},
                     st.sampled_from(CONFIGS), data_strategy(tier), gen.uint(0, 3).map(lambda v: v > 0), st.booleans())


def classify_tlsh(c):
    n = len(c["data"])
    exp = R.tlsh_model(c["data"], c["buckets"], c["window"], c["chklen"], c["force"])
    return ("buckets=%d" % c["buckets"], "window=%d" % c["window"], "chklen=%d" % c["chklen"], "force" if c["force"] else "no force",
            "len<50" if n < 50 else "len<256" if n < 256 else "len<=656" if n <= 656 else "len>656",
            "digest=None" if exp is None else "digest")


def tlsh_config_cases(tier, rnd):
    """all 30 configurations x the length gates x high/low entropy"""
    for (b, w, ck) in CONFIGS:
        for n in (0, 3, 49, 50, 60, 255, 256, 300):
            for alpha in (256, 3, 1):
                d = bytes(rnd.randrange(alpha) for _ in range(n))
                for force in (False, True):
                    yield {"buckets": b, "window": w, "chklen": ck, "data": d, "force": force, "singleton": False}


# ---------------------------------------------------------------------------
def arbitrary_digest(b, ck):
    return gen.blob(diglen(b, ck))


def check_distance(c):
    b, w, ck = c["buckets"], c["window"], c["chklen"]
    x, y = c["x"], c["y"]
    ox = guard(guard(TLSH, b, w, ck).from_hash, x)
    oy = guard(guard(TLSH, b, w, ck).from_hash, y)
    eq(guard(ox.digest).lsh_code, x, "from_hash:reserialize")
    cks, L, q1, q2, code = R.header_fields(x, ck)
    eq((bytes(ox.checksum), ox.Lvalue, ox.q1_ratio, ox.q2_ratio, bytes(ox.tmp_code)), (cks, L, q1, q2, code), "from_hash:header-fields")
    exp = R.tlsh_distance(x, y, ck)
    forms = {"obj,obj": (ox, oy), "bytes,bytes": (x, y), "obj,bytes": (ox, y), "bytes,obj": (x, oy)}
    for name, (a, b_) in forms.items():
        d = guard(tdistance, a, b_)
        expect(isinstance(d, int) and not isinstance(d, bool) and d >= 0, "distance:not-a-non-negative-int", ">=0 int", repr(d))
        if d != exp:
            raise Violation("distance(%s)!=model" % name, exp, d)
        d2 = guard(tdistance, b_, a)
        if d2 != d:
            raise Violation("distance:asymmetric(%s)" % name, d, d2)
    eq(guard(tdistance, ox, ox), 0, "distance(x,x)!=0")
    eq(guard(tdistance, x, x), 0, "distance(x,x)!=0")
    eq(guard(ox.distance_to, oy), exp, "distance_to!=distance")
    eq(guard(tdistance, x, y, False), R.tlsh_distance(x, y, ck, False), "distance(lvalue=False)!=model")


def distance_strategy(tier):
    def for_cfg(cfg):
        b, w, ck = cfg
        n = diglen(b, ck)
        arb = gen.blob(n)

        def near(x, k, v):
            y = bytearray(x)
            y[k % n] = v
            return bytes(y)
        pair = gen.pick((2, st.tuples(arb, arb)), (2, st.tuples(arb, gen.uint(0, 200), gen.uint(0, 255)).map(lambda t: (t[0], near(*t)))),
                        (1, arb.map(lambda x: (x, x))))
        return pair.map(lambda p: {"buckets": b, "window": w, "chklen": ck, "x": p[0], "y": p[1]})
    return st.sampled_from(CONFIGS).flatmap(for_cfg)


def check_produced_distance(c):
    """distances between digests actually produced from data"""
    b, w, ck = c["buckets"], c["window"], c["chklen"]
    hx = guard(TLSH(b, w, ck), c["dx"], True)
    hy = guard(TLSH(b, w, ck), c["dy"], True)
    if hx is None or hy is None:
        return ALLOWED
    check_distance({"buckets": b, "window": w, "chklen": ck, "x": hx, "y": hy})
    # the objects that COMPUTED the digests (not re-loaded ones) in every combination with bytes / re-loaded objects
    tx, ty = guard(TLSH, b, w, ck), guard(TLSH, b, w, ck)
    guard(tx, c["dx"], True)
    guard(ty, c["dy"], True)
    ry = guard(guard(TLSH, b, w, ck).from_hash, hy)
    exp = R.tlsh_distance(hx, hy, ck)
    for name, (a, b_) in {"computed,computed": (tx, ty), "computed,bytes": (tx, hy), "bytes,computed": (hx, ty), "computed,reloaded": (tx, ry),
                          "reloaded,computed": (ry, tx)}.items():
        d = guard(tdistance, a, b_)
        e = exp if name != "reloaded,computed" else R.tlsh_distance(hy, hx, ck)
        if d != e:
            raise Violation("distance(%s)!=model" % name, e, d)
    eq(guard(tdistance, tx, hx), 0, "distance(computed x, bytes x)!=0")
    eq(guard(tdistance, hx, tx), 0, "distance(bytes x, computed x)!=0")
    eq(guard(tx.distance_to, hx), 0, "distance_to(own digest)!=0")


def produced_strategy(tier):
    def build(cfg, d, edits):
        e = bytearray(d)
        for pos, v in edits:
            e[pos % len(e)] = v
        return {"buckets": cfg[0], "window": cfg[1], "chklen": cfg[2], "dx": d, "dy": bytes(e)}
    return st.builds(build, st.sampled_from(CONFIGS), gen.blob_of(gen.uint(60, 500)).filter(lambda d: len(set(d)) > 4),
                     st.lists(st.tuples(gen.uint(0, 10000), gen.uint(0, 255)), max_size=30))


# ---------------------------------------------------------------------------
def check_nilsimsa(c):
    target, data = c["target"], c["data"]
    obj = guard(Nilsimsa, target) if target is not None else guard(Nilsimsa)
    got = guard(obj, data)
    exp = R.nilsimsa(data, 53 if target is None else target)
    expect(isinstance(got, bytes), "nilsimsa:type", "bytes", type(got).__name__)
    eq(len(got), 32, "nilsimsa:digest-length")
    if got != exp:
        raise Violation("nilsimsa!=model", exp, got)
    other = c.get("other")
    if other is not None:
        h2 = guard(Nilsimsa(target) if target is not None else Nilsimsa(), other)
        ham = sum(bin(a ^ b).count("1") for a, b in zip(got, h2))
        d = guard(ndistance, got, h2)
        eq(d, ham, "nilsimsa-distance!=hamming")
        eq(guard(ndistance, h2, got), ham, "nilsimsa-distance:asymmetric")
        eq(guard(ndistance, got, got), 0, "nilsimsa-distance(x,x)!=0")


def nilsimsa_strategy(tier):
    return st.builds(lambda t, d, o: {"target": t, "data": d, "other": o},
                     gen.pick((1, st.none()), (2, st.sampled_from([0, 1, 17, 53, 128, 255])), (1, gen.uint(0, 255))),
                     gen.blob_of(gen.pick((1, gen.uint(0, 6)), (3, gen.uint(7, 400)))), gen.pick((1, st.none()), (2, gen.blob_of(gen.uint(0, 100)))))


# ---------------------------------------------------------------------------
def check_history(c):
    b, w, ck = c["buckets"], c["window"], c["chklen"]
    obj = guard(TLSH, b, w, ck)
    for i, (data, force) in enumerate(c["calls"]):
        if force in ("update", "final", "from_hash", "digest", "distance"):
            # other public uses of the same object between two one-shot digests: not judged here, the next digest is
            if force == "update":
                attempt(obj.update, data)
            elif force == "final":
                attempt(obj.final, data, True)
            elif force == "digest":
                attempt(obj.digest)
            else:
                d = R.tlsh_model(data, b, w, ck, True)
                if d is not None:
                    attempt(obj.from_hash, d) if force == "from_hash" else attempt(obj.distance_to, d)
            continue
        st_, got = attempt(obj, data, force)
        exp = R.tlsh_model(data, b, w, ck, force)
        if st_ == "exc":
            raise Violation("tlsh:reused-object:exception", exp, repr(got)[:100])
        if got != exp:
            raise Violation("tlsh:reused-object!=model", {"call": i, "d": exp}, {"call": i, "d": got})
        if exp is not None:
            # the hasher that just computed this digest stands for it in distances (both argument positions), every time
            yard = R.tlsh_model(bytes(range(256)) * 2, b, w, ck, True)
            for name, d, e in (("object,bytes", guard(tdistance, obj, yard), R.tlsh_distance(exp, yard, ck)),
                               ("bytes,object", guard(tdistance, yard, obj), R.tlsh_distance(yard, exp, ck)),
                               ("object,own-bytes", guard(tdistance, obj, exp), 0)):
                if d != e:
                    raise Violation("tlsh:reused-object:distance(%s)!=model" % name, {"call": i, "d": e}, {"call": i, "d": d})


def history_strategy(tier):
    call = st.tuples(data_strategy("quick"), gen.pick((3, st.just(True)), (2, st.just(False)),
                                                     (2, st.sampled_from(["update", "final", "from_hash", "digest", "distance"]))))
    return st.builds(lambda cfg, calls: {"buckets": cfg[0], "window": cfg[1], "chklen": cfg[2],
                                         "calls": tuple(calls) + ((bytes(range(256)) * 2, True),) * isinstance(calls[-1][1], str)},
                     st.sampled_from(CONFIGS), st.lists(call, min_size=2, max_size=4))


FACETS = [
    Facet("tlsh-configurations", check_tlsh, cases=tlsh_config_cases, shards={"quick": 16, "thorough": 16},
          nontrivial=lambda c: R.tlsh_model(c["data"], c["buckets"], c["window"], c["chklen"], c["force"]) is not None, classify=classify_tlsh,
          rule="all 30 configurations x lengths {0,3,49,50,60,255,256,300} x alphabets {256,3,1 symbols} x force on/off"),
    Facet("tlsh-random", check_tlsh, strategy=tlsh_strategy, budget={"quick": 3000, "thorough": 80000}, shards={"quick": 16, "thorough": 32},
          nontrivial=lambda c: R.tlsh_model(c["data"], c["buckets"], c["window"], c["chklen"], c["force"]) is not None, classify=classify_tlsh,
          rule="random configuration; data 0..1500 (4000) bytes with the gate lengths emphasised; random / 1-4 symbol alphabets / long runs / text-like; "
               "digest == model, None for short or uniform input, re-loading reproduces header fields and bytes"),
    Facet("distance-arbitrary-digests", check_distance, strategy=distance_strategy, budget={"quick": 1500, "thorough": 40000}, fuzz={"thorough": 100000},
          shards={"quick": 16, "thorough": 32}, nontrivial=lambda c: c["x"] != c["y"], classify=lambda c: ("buckets=%d" % c["buckets"], "chklen=%d" % c["chklen"]),
          rule="arbitrary byte strings of a valid digest length (independent, one byte apart, identical): from_hash round trip, d >= 0 int, d == model, "
               "symmetric, d(x,x) == 0, equal across object/object, bytes/bytes, object/bytes, bytes/object, distance_to, lvalue=False"),
    Facet("distance-produced-digests", check_produced_distance, strategy=produced_strategy, budget={"quick": 400, "thorough": 15000},
          shards={"quick": 16, "thorough": 32}, nontrivial=lambda c: c["dx"] != c["dy"], classify=lambda c: ("buckets=%d" % c["buckets"],),
          rule="digests produced from data and from an edited copy (0..30 byte edits): same distance checks"),
    Facet("nilsimsa", check_nilsimsa, strategy=nilsimsa_strategy, budget={"quick": 1500, "thorough": 40000}, shards={"quick": 16, "thorough": 32},
          nontrivial=lambda c: len(c["data"]) >= 3, classify=lambda c: ("default target" if c["target"] is None else "target given", "len<5" if len(c["data"]) < 5 else "len>=5"),
          rule="targets {default,0,1,17,53,128,255,uniform}, data 0..400 bytes: digest == model (32 bytes); distance == Hamming distance, symmetric, 0 on equal"),
    Facet("tlsh-reused-object", check_history, strategy=history_strategy, budget={"quick": 400, "thorough": 10000}, shards={"quick": 16, "thorough": 32},
          nontrivial=lambda c: True,
          classify=lambda c: ("buckets=%d" % c["buckets"],) + tuple(sorted(set(f for _, f in c["calls"] if isinstance(f, str)))),
          rule="2..5 calls on ONE TLSH object: one-shot digests (hashable and unhashable inputs mixed) interleaved with update / final / digest / "
               "from_hash / distance_to calls; every one-shot digest is judged"),
]
WEIGHT = {"tlsh-random": 8, "tlsh-configurations": 5}
