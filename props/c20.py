"""C20 - Permutation and subset-sum helpers enumerate exactly and answer correctly.
Oracles: itertools (permutations, combinations), a multiset-aware next_permutation, brute force over all 2^n subsets."""
import itertools, collections
from hypothesis import strategies as st
from vlib.core import Facet, Violation, ALLOWED, guard, attempt, eq, expect
from vlib import gen

from crysp.utils import perms as P
from crysp.utils import knapsack as K

RULE = ("Lists of length 0..8 (9 thorough) over alphabets with and without repeats are enumerated; item lists have up to 9 positive weights and "
        "every target 0..sum is tried.  Non-trivial = list of at least 3 elements / target > 0.")
ASSUMPTIONS = ["for target 0 the subset-sum helpers may return an empty collection or a truthy success value",
               "failure is reported by a falsy value (False / None) or an empty result for a positive target",
               "weights are positive integers"]


def next_permutation(seq):
    """lexicographic successor (multiset-aware); the last arrangement wraps to the first"""
    a = list(seq)
    k = len(a) - 2
    while k >= 0 and a[k] >= a[k + 1]:
        k -= 1
    if k < 0:
        return sorted(a)
    i = len(a) - 1
    while a[i] <= a[k]:
        i -= 1
    a[k], a[i] = a[i], a[k]
    a[k + 1:] = reversed(a[k + 1:])
    return a


def check_permutk(c):
    l, k = list(c["l"]), c["k"]
    orig = list(l)
    got = []
    g = guard(P.permutk, l, k)
    while True:
        st_, item = attempt(next, g, None)
        if st_ == "exc":
            raise Violation("permutk:exc:%s" % type(item).__name__, actual=repr(item)[:100])
        if item is None:
            break
        got.append(tuple(item))
    exp = collections.Counter(tuple(orig[:k]) + p for p in itertools.permutations(orig[k:]))
    if collections.Counter(got) != exp:
        raise Violation("permutk:wrong-multiset", {"count": sum(exp.values())}, {"count": len(got), "first": got[:6]})
    if l != orig:
        raise Violation("permutk:list-not-restored", orig, l)


def check_nextperm(c):
    l = list(c["l"])
    exp = next_permutation(l)
    r = guard(P.nextperm, l)
    if l != exp:
        raise Violation("nextperm:not-the-successor" + (":repeats" if len(set(c["l"])) < len(c["l"]) else ""), exp, l)
    expect(r is l or r == l, "nextperm:return-value", exp, r)


def check_cycle(c):
    """iterating nextperm from the sorted list visits every distinct arrangement exactly once and returns to the start"""
    start = sorted(c["l"])
    l = list(start)
    seen = [tuple(l)]
    total = len(set(itertools.permutations(start)))
    for _ in range(total):
        guard(P.nextperm, l)
        seen.append(tuple(l))
    if seen[-1] != tuple(start) or len(set(seen[:-1])) != total or sorted(set(seen[:-1])) != list(seen[:-1]):
        raise Violation("nextperm:cycle-not-lexicographic", total, len(set(seen)))


def check_combink(c):
    l, p = list(c["l"]), c["p"]
    exp = [list(x) for x in itertools.combinations(l, p)]
    for rep in range(c.get("repeat", 1)):
        got = guard(lambda: [list(x) for x in P.combink(l, p, 0)])
        if got != exp:
            raise Violation("combink!=itertools.combinations" + (":second-call" if rep else ""), exp[:8], got[:8])
    if l != list(c["l"]):
        raise Violation("combink:list-changed", c["l"], l)


def check_combink_history(c):
    """several combink generators in one process: consumed completely, abandoned after j items (closed, dropped, or
    kept suspended and drained at the end).  Every item sequence is the itertools.combinations one."""
    kept = []
    for i, (l, p, take, how) in enumerate(c["calls"]):
        l = list(l)
        exp = [list(x) for x in itertools.combinations(l, p)]
        g = guard(P.combink, l, p, 0)
        if take is None:
            got = guard(lambda: [list(x) for x in g])
            if got != exp:
                raise Violation("combink:history:full-call!=itertools.combinations", {"call": i, "first": exp[:6]}, {"call": i, "first": got[:6]})
            continue
        take = min(take, len(exp))
        got = guard(lambda: [list(x) for x in itertools.islice(g, take)])
        if got != exp[:take]:
            raise Violation("combink:history:prefix!=itertools.combinations", {"call": i, "first": exp[:take][:6]}, {"call": i, "first": got[:6]})
        if how == "close":
            g.close()
        elif how == "keep":
            kept.append((i, g, exp[take:]))
        del g
    for i, g, rest in kept:
        got = guard(lambda: [list(x) for x in g])
        if got != rest:
            raise Violation("combink:history:resumed-generator!=itertools.combinations", {"call": i, "rest": rest[:6]}, {"call": i, "rest": got[:6]})


def combink_history_strategy(tier):
    def call(n):
        return st.tuples(st.sampled_from([tuple(range(n)), tuple("abcdefghij"[:n])]), gen.uint(1, n),
                         gen.pick((2, st.none()), (3, gen.uint(0, 4))), st.sampled_from(["close", "drop", "keep"]))
    calls = st.lists(gen.uint(1, 8 if tier == "quick" else 10).flatmap(call), min_size=2, max_size=5)
    return calls.map(lambda cs: {"calls": tuple(cs) + ((tuple(range(8)), 7, None, "close"), (tuple(range(3)), 2, None, "close"))})


def lists(tier):
    top = 8 if tier == "quick" else 9
    for n in range(top + 1):
        pats = set()
        pats.add(tuple(range(n)))                           # all distinct
        pats.add(tuple(reversed(range(n))))
        pats.add(tuple([0] * n))                            # all equal
        pats.add(tuple(i // 2 for i in range(n)))           # pairs
        pats.add(tuple(i % 2 for i in range(n)))
        pats.add(tuple(min(i, 2) for i in range(n)))
        pats.add(tuple((i * 3) % 4 for i in range(n)))
        if n <= 5:
            pats.update(itertools.product(range(3), repeat=n))   # every list over a 3-letter alphabet
        for p in sorted(pats):
            yield p


def permutk_cases(tier, rnd):
    for l in lists(tier):
        for k in range(len(l) + 1):
            yield {"l": l, "k": k}


def nextperm_cases(tier, rnd):
    for l in lists(tier):
        for arr in sorted(set(itertools.permutations(l))):
            yield {"l": arr}


def cycle_cases(tier, rnd):
    for l in lists(tier):
        if len(l) <= 7:
            yield {"l": tuple(sorted(l))}


def combink_cases(tier, rnd):
    top = 7 if tier == "quick" else 8
    for n in range(1, top + 1):
        for l in (tuple(range(n)), tuple("abcdefgh"[:n]), tuple(i // 2 for i in range(n))):
            for p in range(1, n + 1):
                yield {"l": l, "p": p, "repeat": 2 if (n + p) % 2 else 1}


# ---------------------------------------------------------------------------
def subsets_with_sum(items, s):
    """minimum cardinality of a sub-multiset with weight sum s (None if impossible)"""
    best = None
    n = len(items)
    for mask in range(1 << n):
        tot = 0
        cnt = 0
        for i in range(n):
            if mask >> i & 1:
                tot += items[i][1]
                cnt += 1
        if tot == s and (best is None or cnt < best):
            best = cnt
    return best


def is_submultiset(sub, items):
    a, b = collections.Counter(map(tuple, sub)), collections.Counter(map(tuple, items))
    return all(b[x] >= n for x, n in a.items())


def judge(name, res, items, s, best):
    """res is what the helper returned for target s"""
    failure = res is None or res is False or (s > 0 and isinstance(res, (list, tuple)) and len(res) == 0)
    if best is None:
        if not failure:
            raise Violation(name + ":answer-for-impossible-target", "a failure value", repr(res)[:120])
        return
    if s == 0:
        if res is True or (isinstance(res, (list, tuple)) and len(res) == 0):
            return
        raise Violation(name + ":target-0", "empty collection or True", repr(res)[:120])
    if failure:
        raise Violation(name + ":failure-for-possible-target", {"min_cardinality": best}, repr(res))
    if not isinstance(res, (list, tuple)):
        raise Violation(name + ":not-a-collection", "a list of the chosen items", repr(res)[:120])
    if sum(x[1] for x in res) != s:
        raise Violation(name + ":wrong-sum", s, [tuple(x) for x in res])
    if not is_submultiset(res, items):
        raise Violation(name + ":not-a-sub-collection(item-reused-or-invented)", [tuple(x) for x in items], [tuple(x) for x in res])
    if name == "dynprog" and len(res) != best:
        raise Violation("dynprog:not-minimal", best, len(res))


def check_knapsack(c):
    items = [tuple(x) for x in c["items"]]
    total = sum(w for _, w in items)
    targets = c.get("targets") or range(0, total + 2)
    for s in targets:
        best = subsets_with_sum(items, s)
        for name, f in (("exactsum", K.exactsum), ("dynprog", K.dynprog)):
            l = [tuple(x) for x in items]
            res = guard(f, l, s)
            snapshot = list(res) if isinstance(res, list) else res
            judge(name, res, items, s, best)
            if c.get("repeat"):
                res2 = guard(f, l, s)
                judge(name + ":second-call", res2, items, s, best)
                if isinstance(snapshot, list) and list(res) != snapshot:
                    raise Violation(name + ":first-answer-mutated-by-second-call", snapshot, list(res))
            if l != items:
                raise Violation(name + ":item-list-changed", items, l)


def knapsack_cases(tier, rnd):
    nsets = 600 if tier == "quick" else 3000
    fixed = [((0, 5), (1, 3)), ((0, 1),), (), ((0, 2), (1, 2), (2, 2)), ((0, 1), (1, 2), (2, 4), (3, 8)), ((0, 3), (1, 3), (2, 5), (3, 7), (4, 7))]
    for it in fixed:
        yield {"items": it, "repeat": True}
    for i in range(nsets):
        n = rnd.randrange(1, 8 if tier == "quick" else 10)
        it = tuple((j, rnd.choice([1, 2, 3, 5, 7, 11, 12]) if i % 2 else rnd.randrange(1, 13)) for j in range(n))
        if i % 5 == 0:          # identical couples (true duplicates)
            it = tuple(("x", w) for _, w in it)
        yield {"items": it, "repeat": i % 3 == 0}


def knapsack_strategy(tier):
    item = st.tuples(st.sampled_from(["a", "b", "c", 0, 1]), gen.uint(1, 12))
    return st.builds(lambda items, rep, hist: {"items": tuple(items), "repeat": rep, "targets": tuple(hist) or None},
                     st.lists(item, min_size=0, max_size=9), st.booleans(), st.lists(gen.uint(0, 40), max_size=6))


FACETS = [
    Facet("permutk-exhaustive", check_permutk, cases=permutk_cases, exhaustive=True, distinct=True, shards={"quick": 8, "thorough": 16},
          nontrivial=lambda c: len(c["l"]) >= 3, classify=lambda c: ("n=%d" % len(c["l"]), "repeats" if len(set(c["l"])) < len(c["l"]) else "distinct"),
          rule="every list over a 3-letter alphabet up to length 5 plus 7 repeat patterns up to length 8 (9), every depth k <= n: multiset == "
               "{l[:k]+p : p in permutations(l[k:])}, list restored"),
    Facet("nextperm-exhaustive", check_nextperm, cases=nextperm_cases, exhaustive=True, distinct=False, shards={"quick": 8, "thorough": 16},
          nontrivial=lambda c: len(c["l"]) >= 3, classify=lambda c: ("n=%d" % len(c["l"]), "repeats" if len(set(c["l"])) < len(c["l"]) else "distinct"),
          rule="every distinct arrangement of every such list: nextperm == multiset-aware lexicographic successor, last wraps to first"),
    Facet("nextperm-cycles", check_cycle, cases=cycle_cases, exhaustive=True, distinct=True, shards={"quick": 4, "thorough": 8},
          nontrivial=lambda c: len(c["l"]) >= 3, classify=lambda c: ("n=%d" % len(c["l"]),),
          rule="from the sorted list, repeated nextperm visits every distinct arrangement once, in increasing order, and returns to the start"),
    Facet("combink-exhaustive", check_combink, cases=combink_cases, exhaustive=True, distinct=True, shards={"quick": 4, "thorough": 8},
          nontrivial=lambda c: len(c["l"]) >= 3, classify=lambda c: ("n=%d" % len(c["l"]), "called twice" if c.get("repeat", 1) > 1 else "once"),
          rule="n = 1..7 (8), every p in 1..n, lists of ints / strings / repeated elements: list(combink(l,p,0)) == itertools.combinations, also on a second call"),
    Facet("combink-histories", check_combink_history, strategy=combink_history_strategy, budget={"quick": 1500, "thorough": 30000},
          nontrivial=lambda c: any(t is not None for _, _, t, _ in c["calls"]),
          classify=lambda c: tuple(sorted(set(h for _, _, t, h in c["calls"] if t is not None))) or ("all consumed",),
          rule="4..7 combink generators in one process (n = 1..8 (10), every p): consumed completely or abandoned after 0..4 items "
               "(closed / dropped / kept suspended and drained at the end); every sequence, prefix and remainder == itertools.combinations"),
    Facet("subset-sum-all-targets", check_knapsack, cases=knapsack_cases, distinct=False, shards={"quick": 16, "thorough": 32},
          nontrivial=lambda c: len(c["items"]) >= 2, classify=lambda c: ("n=%d" % len(c["items"]), "called twice" if c.get("repeat") else "once"),
          rule="fixed corner cases + 600 (3000) random item lists (n <= 7 (9), weights 1..12, duplicates, identical couples) x EVERY target 0..sum+1, "
               "exactsum and dynprog judged against brute force over all subsets (sum, sub-multiset, minimality, failure iff impossible), optionally twice"),
    Facet("subset-sum-histories", check_knapsack, strategy=knapsack_strategy, budget={"quick": 3000, "thorough": 40000}, shards={"quick": 16, "thorough": 32},
          nontrivial=lambda c: len(c["items"]) >= 2, classify=lambda c: ("n=%d" % min(9, len(c["items"])),),
          rule="random item lists (labels collide, weights 1..12) and a list of targets queried one after the other in one process"),
]
WEIGHT = {"subset-sum-all-targets": 6, "nextperm-exhaustive": 4, "permutk-exhaustive": 4}
