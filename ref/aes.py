"""Reference AES (FIPS 197) on bytes/ints.  S-box derived from GF(2^8) inversion + affine map,
multiplication by shift-and-reduce.  Encrypt and decrypt written separately.  Imports nothing from crysp."""


def gmul(a, b):
    r = 0
    while b:
        if b & 1:
            r ^= a
        a <<= 1
        if a & 0x100:
            a ^= 0x11b
        b >>= 1
    return r


def _inv(a):
    if a == 0:
        return 0
    r = 1
    for _ in range(254):      # a^254 = a^-1
        r = gmul(r, a)
    return r


def _affine(x):
    r = 0
    for i in range(8):
        bit = (x >> i) ^ (x >> ((i + 4) % 8)) ^ (x >> ((i + 5) % 8)) ^ (x >> ((i + 6) % 8)) ^ (x >> ((i + 7) % 8)) ^ (0x63 >> i)
        r |= (bit & 1) << i
    return r


SBOX = [_affine(_inv(x)) for x in range(256)]
INV = [0] * 256
for _i, _v in enumerate(SBOX):
    INV[_v] = _i


def expand(key):
    nk = len(key) // 4
    nr = nk + 6
    w = [list(key[4 * i:4 * i + 4]) for i in range(nk)]
    rc = 1
    for i in range(nk, 4 * (nr + 1)):
        t = list(w[i - 1])
        if i % nk == 0:
            t = [SBOX[b] for b in t[1:] + t[:1]]
            t[0] ^= rc
            rc = gmul(rc, 2)
        elif nk > 6 and i % nk == 4:
            t = [SBOX[b] for b in t]
        w.append([a ^ b for a, b in zip(w[i - nk], t)])
    return [sum(w[4 * r:4 * r + 4], []) for r in range(nr + 1)], nr


def _shift(s):      # state is column-major: byte i at row i%4, column i//4
    return [s[(i + 4 * (i % 4)) % 16] for i in range(16)]


def _ishift(s):
    return [s[(i - 4 * (i % 4)) % 16] for i in range(16)]


def _mix(s, m):
    out = []
    for c in range(4):
        col = s[4 * c:4 * c + 4]
        for r in range(4):
            out.append(gmul(col[0], m[(0 - r) % 4]) ^ gmul(col[1], m[(1 - r) % 4]) ^ gmul(col[2], m[(2 - r) % 4]) ^ gmul(col[3], m[(3 - r) % 4]))
    return out


def enc(key, block):
    assert len(key) in (16, 24, 32) and len(block) == 16
    rk, nr = expand(key)
    s = [a ^ b for a, b in zip(block, rk[0])]
    for r in range(1, nr):
        s = _mix(_shift([SBOX[b] for b in s]), (2, 3, 1, 1))
        s = [a ^ b for a, b in zip(s, rk[r])]
    s = _shift([SBOX[b] for b in s])
    return bytes(a ^ b for a, b in zip(s, rk[nr]))


def dec(key, block):
    assert len(key) in (16, 24, 32) and len(block) == 16
    rk, nr = expand(key)
    s = [a ^ b for a, b in zip(block, rk[nr])]
    for r in range(nr - 1, 0, -1):
        s = [INV[b] for b in _ishift(s)]
        s = [a ^ b for a, b in zip(s, rk[r])]
        s = _mix(s, (14, 11, 13, 9))
    s = [INV[b] for b in _ishift(s)]
    return bytes(a ^ b for a, b in zip(s, rk[0]))


def selftest():
    h = bytes.fromhex
    assert SBOX[0] == 0x63 and SBOX[0x53] == 0xed and INV[0x63] == 0 and gmul(0x57, 0x83) == 0xc1 and gmul(0x57, 0x13) == 0xfe
    # FIPS-197 appendix B and C.1-C.3
    assert enc(h("2b7e151628aed2a6abf7158809cf4f3c"), h("3243f6a8885a308d313198a2e0370734")) == h("3925841d02dc09fbdc118597196a0b32")
    pt = h("00112233445566778899aabbccddeeff")
    for k, c in (("000102030405060708090a0b0c0d0e0f", "69c4e0d86a7b0430d8cdb78070b4c55a"),
                 ("000102030405060708090a0b0c0d0e0f1011121314151617", "dda97ca4864cdfe06eaf70a0ec0d7191"),
                 ("000102030405060708090a0b0c0d0e0f101112131415161718191a1b1c1d1e1f", "8ea2b7ca516745bfeafc49904b496089")):
        assert enc(h(k), pt) == h(c) and dec(h(k), h(c)) == pt
    return "AES S-box derived; FIPS-197 App. B, C.1-C.3 both directions"
