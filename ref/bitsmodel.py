"""Model of crysp.bits.Bits: a pair (value, size), bit 0 = least significant bit of value.
Imports nothing from crysp.  Written from the class/`load` docstrings."""


def rev8(b):
    r = 0
    for i in range(8):
        if b & (1 << i):
            r |= 1 << (7 - i)
    return r


def load(s, bitorder=-1):
    """-> (value, size) for a byte string under the documented bit orders.
    bitorder -1: bit stream (bit i = bit 7-(i%8) of byte i//8); +1: little-endian integer;
    0: big-endian integer; k>1 (k | len): k-byte big-endian groups, first group least significant.
    Raises ValueError when k does not divide len(s)."""
    n = len(s)
    if bitorder == -1:
        v = 0
        for j, byte in enumerate(s):
            v |= rev8(byte) << (8 * j)
        return v, 8 * n
    if bitorder == 0:
        return int.from_bytes(s, "big"), 8 * n
    k = bitorder
    if k < 0:
        raise NotImplementedError
    if n % k:
        raise ValueError
    v = 0
    for g in range(n // k):
        v |= int.from_bytes(s[g * k:(g + 1) * k], "big") << (8 * k * g)
    return v, 8 * n


def resize(v, n, size):
    """setting .size: truncate to the low bits or zero-extend"""
    return v & ((1 << size) - 1), size


def bit(v, n, i):
    return (v >> i) & 1


def bitlist(v, n):
    return [(v >> i) & 1 for i in range(n)]


def from_bitlist(l):
    v = 0
    for i, b in enumerate(l):
        v |= (b & 1) << i
    return v, len(l)


def signed(v, n):
    return v - (1 << n) if n and (v >> (n - 1)) & 1 else v


def to_str(v, n):
    return "".join("1" if (v >> i) & 1 else "0" for i in range(n))


def to_bytes(v, n):
    """bit-stream bytes, last byte zero-filled"""
    out = bytearray((n + 7) // 8)
    for i in range(n):
        if (v >> i) & 1:
            out[i // 8] |= 1 << (7 - (i % 8))
    return bytes(out)


def pack_le(v, n):
    return v.to_bytes((n + 7) // 8, "little")


def selftest():
    assert load(b"\x80") == (1, 8) and resize(1, 8, 5) == (1, 5)                 # Bits(b'\x80',5) -> ival 1
    assert load(b"\x01\x0f", 1) == (0x0f01, 16) and resize(0x0f01, 16, 13) == (0x0f01, 13)
    assert load(b"\x01\x0f", 2) == (0x010f, 16) and load(b"\x01\x0f", 0) == (0x010f, 16)
    assert load(b"\x0b\x0a\x0d\x0c"[::-1], 2)[0] == 0x0a0b0c0d          # PDP-endian example of the docstring
    assert load(b"\x0c\x0d\x0a\x0b", 2)[0] == 0x0a0b0c0d                # Honeywell example
    assert to_bytes(*resize(*load(b"\x82"), 5)) == b"\x80"              # class docstring
    assert to_str(1, 5) == "10000" and bitlist(1, 5) == [1, 0, 0, 0, 0]
    assert [rev8(x) for x in (1, 2, 0x80, 0xf0)] == [0x80, 0x40, 1, 0x0f]
    return "docstring examples of Bits/load reproduced by the model"


# ---------------------------------------------------------------------------
# operators (C08).  Operands are (value, size) pairs; an int operand counts with its bit length.

def as_pair(x):
    return x if isinstance(x, tuple) else (x, x.bit_length())


def binop(op, a, b):
    (x, m), (y, n) = as_pair(a), as_pair(b)
    w = max(m, n)
    mask = (1 << w) - 1
    if op == "+":
        return (x + y) & mask, w
    if op == "-":
        return (x - y) & mask, w
    if op == "&":
        return x & y, w
    if op == "|":
        return x | y, w
    if op == "^":
        return x ^ y, w
    raise ValueError(op)


def neg(a):
    x, m = a
    return (-x) & ((1 << m) - 1), m


def inv(a):
    x, m = a
    return x ^ ((1 << m) - 1), m


def mul(a, b):
    (x, m), (y, _) = a, as_pair(b)
    return (x * y) & ((1 << m) - 1), m


def shl(a, k):
    x, m = a
    return (x << k) & ((1 << m) - 1), m


def shr(a, k):
    x, m = a
    return x >> k, m


def rol(a, k):
    x, m = a
    if m == 0:
        return a
    k %= m
    return ((x << k) | (x >> (m - k))) & ((1 << m) - 1), m


def ror(a, k):
    x, m = a
    if m == 0:
        return a
    return rol(a, (m - k % m) % m)


def concat(a, b):
    (x, m), (y, n) = as_pair(a), as_pair(b)
    return x | (y << m), m + n


def split(a, k, bigend=False):
    x, m = a
    out = []
    i = 0
    while i < m:
        w = min(k, m - i)
        out.append(((x >> i) & ((1 << w) - 1), w))
        i += k
    return out[::-1] if bigend else out


def zeroextend(a, size):
    x, m = a
    return (x, size) if size > m else a


def signextend(a, size):
    x, m = a
    if size <= m:
        return a
    if m and (x >> (m - 1)) & 1:
        x |= ((1 << size) - 1) ^ ((1 << m) - 1)
    return x, size


def select(a, idx):
    """bits at the listed positions, in order"""
    x, m = a
    v = 0
    for j, i in enumerate(idx):
        v |= ((x >> i) & 1) << j
    return v, len(idx)


def assign(a, idx, value):
    """write bit j of value to position idx[j] (sequentially)"""
    x, m = a
    for j, i in enumerate(idx):
        x = (x & ~(1 << i)) | (((value >> j) & 1) << i)
    return x, m


def hw(a):
    return bin(a[0]).count("1")
