"""Reference BLAKE-224/256/384/512 (SHA-3 submission, final round tweak: 14/16 rounds) on plain ints.
Constants: the BLAKE constants are the leading hex digits of pi (computed with Machin's formula in integers),
the IVs are the SHA-2 IVs (square roots of primes).  Bit-granular, salted, and resumable from (h, bits hashed).
Imports nothing from crysp."""
from math import isqrt
def pi_frac_bits(nbits):
    # Machin: pi = 16 atan(1/5) - 4 atan(1/239), fixed point with guard bits
    g=nbits+64; one=1<<g
    def atan_inv(x):
        t=one//x; s=t; n=3; x2=x*x; sign=-1
        while t:
            t//=x2; s+=sign*(t//n); sign=-sign; n+=2
        return s
    pi=16*atan_inv(5)-4*atan_inv(239)
    frac=pi-3*one
    return frac>>64
_p=pi_frac_bits(1024)
C64=[(_p>>(64*(15-i)))&((1<<64)-1) for i in range(16)]
C32=[(_p>>(32*(31-i)))&0xffffffff for i in range(16)]
SIG=[[0,1,2,3,4,5,6,7,8,9,10,11,12,13,14,15],[14,10,4,8,9,15,13,6,1,12,0,2,11,7,5,3],[11,8,12,0,5,2,15,13,10,14,3,6,7,1,9,4],
[7,9,3,1,13,12,11,14,2,6,5,10,4,0,15,8],[9,0,5,7,2,4,10,15,14,1,11,12,6,8,3,13],[2,12,6,10,0,11,8,3,4,13,7,5,15,14,1,9],
[12,5,1,15,14,13,4,10,0,7,6,3,9,2,8,11],[13,11,7,14,12,1,3,9,5,0,15,4,8,6,2,10],[6,15,14,9,11,3,0,8,12,2,13,7,1,4,10,5],[10,2,8,4,7,6,1,5,15,11,9,14,3,12,13,0]]
def primes(n):
    p=[];k=2
    while len(p)<n:
        if all(k%q for q in p): p.append(k)
        k+=1
    return p
def sqrt_frac(p,bits): return isqrt(p<<(2*bits))&((1<<bits)-1)
P=primes(16)
IV={256:[sqrt_frac(p,32) for p in P[:8]],512:[sqrt_frac(p,64) for p in P[:8]],
    384:[sqrt_frac(p,64) for p in P[8:16]],224:[sqrt_frac(p,64)&0xffffffff for p in P[8:16]]}
def compress(n, h, blk, t, salt=0):
    """one BLAKE compression: chaining words h, block bytes, counter t (bits), salt int -> new chaining words"""
    w = 64 if n > 256 else 32
    mask = (1 << w) - 1
    rounds = 16 if w == 64 else 14
    C = C64 if w == 64 else C32
    rot = (32, 25, 16, 11) if w == 64 else (16, 12, 8, 7)
    wb = w // 8
    m = [int.from_bytes(blk[wb * i:wb * i + wb], "big") for i in range(16)]
    s = [(salt >> (w * (3 - i))) & mask for i in range(4)]
    t0, t1 = t & mask, (t >> w) & mask
    v = list(h) + [s[0] ^ C[0], s[1] ^ C[1], s[2] ^ C[2], s[3] ^ C[3], t0 ^ C[4], t0 ^ C[5], t1 ^ C[6], t1 ^ C[7]]
    ror = lambda x, k: ((x >> k) | (x << (w - k))) & mask

    def G(a, b, c, d, r, i):
        p, q = SIG[r % 10][2 * i], SIG[r % 10][2 * i + 1]
        v[a] = (v[a] + v[b] + (m[p] ^ C[q])) & mask
        v[d] = ror(v[d] ^ v[a], rot[0])
        v[c] = (v[c] + v[d]) & mask
        v[b] = ror(v[b] ^ v[c], rot[1])
        v[a] = (v[a] + v[b] + (m[q] ^ C[p])) & mask
        v[d] = ror(v[d] ^ v[a], rot[2])
        v[c] = (v[c] + v[d]) & mask
        v[b] = ror(v[b] ^ v[c], rot[3])
    for r in range(rounds):
        G(0, 4, 8, 12, r, 0); G(1, 5, 9, 13, r, 1); G(2, 6, 10, 14, r, 2); G(3, 7, 11, 15, r, 3)
        G(0, 5, 10, 15, r, 4); G(1, 6, 11, 12, r, 5); G(2, 7, 8, 13, r, 6); G(3, 4, 9, 14, r, 7)
    return [h[i] ^ s[i % 4] ^ v[i] ^ v[i + 8] for i in range(8)]


def blake(n, M, bitlen=None, salt=0, h0=None, count0=0):
    """BLAKE-n of the first bitlen bits of M; optionally resumed from chaining words h0 after count0 bits
    (a multiple of the block size).  The counter of a block without message bits is 0."""
    from . import padref
    w = 64 if n > 256 else 32
    Bb = 16 * w
    v, L = padref.msgbits(M, bitlen)
    total = count0 + L
    cs = 2 * w
    N = (Bb - 2 - cs - L) % Bb
    bit = 1 if n in (256, 512) else 0
    body = padref.tobytes(((((v << 1) | 1) << N) << 1) | bit, L + 2 + N)
    padded = body + (total % (1 << cs)).to_bytes(cs // 8, "big")
    h = list(IV[n]) if h0 is None else list(h0)
    bl = Bb // 8
    for b in range(len(padded) // bl):
        t = count0 + min(L, (b + 1) * Bb) if b * Bb < L else 0
        h = compress(n, h, padded[b * bl:(b + 1) * bl], t, salt)
    return b"".join(x.to_bytes(w // 8, "big") for x in h)[:n // 8]


def selftest():
    assert C64[0] == 0x243F6A8885A308D3 and C64[15] == 0x636920D871574E69 and C32[1] == 0x85A308D3
    assert IV[224][0] == 0xC1059ED8 and IV[384][0] == 0xCBBB9D5DC1059ED8 and IV[256][0] == 0x6A09E667
    v = {(256, 1): "0CE8D4EF4DD7CD8D62DFDED9D4EDB0A774AE6A41929A74DA23109E8F11139C87",
         (256, 72): "D419BAD32D504FB7D44D460C42C5593FE544FA4C135DEC31E21BD9ABDCC22D41",
         (224, 1): "4504CB0314FB2A4F7A692E696E487912FE3F2468FE312C73A5278EC5",
         (224, 72): "F5AA00DD1CB847E3140372AF7B5C46B4888D82C8C0A917913CFB5D04",
         (512, 1): "97961587F6D970FABA6D2478045DE6D1FABD09B61AE50932054D52BC29D31BE4FF9102B9F69E2BBDB83BE13D4B9C06091E5FA0B48BD081B634058BE0EC49BEB3",
         (512, 144): "313717D608E9CF758DCB1EB0F0C3CF9FC150B2D500FB33F51C52AFC99D358A2F1374B8A38BBA7974E7F6EF79CAB16F22CE1E649D6E01AD9589C213045D545DDE",
         (384, 1): "10281F67E135E90AE8E882251A355510A719367AD70227B137343E1BC122015C29391E8545B5272D13A7C2879DA3D807",
         (384, 144): "0B9845DD429566CDAB772BA195D271EFFE2D0211F16991D766BA749447C5CDE569780B2DAA66C4B224A2EC2E5D09174C"}
    for (n, ln), d in v.items():
        assert blake(n, bytes(ln)).hex().upper() == d, (n, ln)
    # BLAKE-256("") and BLAKE-512("") (widely published)
    assert blake(256, b"").hex() == "716f6e863f744b9ac22c97ec7b76ea5f5908bc5b2f67c61510bfc4751384ea7a"
    assert blake(512, b"").hex().startswith("a8cfbbd73726062df0c6864dda65defe58ef0cc52a5625090fa17601e1eecd1b")
    assert blake(256, b"The quick brown fox jumps over the lazy dog").hex() == "7576698ee9cad30173080678e5965916adbb11cb5245d386bf1ffda1cb26c9d7"
    assert blake(512, b"The quick brown fox jumps over the lazy dog").hex().startswith("1f7e26f63b6ad25a0896fd978fd050a1766391d2fd0471a7")
    import random
    rnd = random.Random(3)
    for n in (224, 256, 384, 512):          # resumption: two blocks + tail == resume after the first two compressions
        bl = 128 if n > 256 else 64
        m = bytes(rnd.randrange(256) for _ in range(2 * bl + 9))
        h = compress(n, IV[n], m[:bl], 8 * bl, 5)
        h = compress(n, h, m[bl:2 * bl], 16 * bl, 5)
        assert blake(n, m, None, 5) == blake(n, m[2 * bl:], None, 5, h, 16 * bl)
    return "BLAKE constants derived from pi / prime roots; 8 submission vectors + empty-message digests"
