"""Reference BLAKE2b / BLAKE2s (RFC 7693 + the parameter block of the BLAKE2 paper: digest length, key length,
fanout, depth, leaf length, node offset, node depth, inner length, salt, personalization), resumable from a
chaining value and byte counter.  IVs from prime roots.  Imports nothing from crysp."""
from math import isqrt

SIGMA = [[0, 1, 2, 3, 4, 5, 6, 7, 8, 9, 10, 11, 12, 13, 14, 15], [14, 10, 4, 8, 9, 15, 13, 6, 1, 12, 0, 2, 11, 7, 5, 3],
         [11, 8, 12, 0, 5, 2, 15, 13, 10, 14, 3, 6, 7, 1, 9, 4], [7, 9, 3, 1, 13, 12, 11, 14, 2, 6, 5, 10, 4, 0, 15, 8],
         [9, 0, 5, 7, 2, 4, 10, 15, 14, 1, 11, 12, 6, 8, 3, 13], [2, 12, 6, 10, 0, 11, 8, 3, 4, 13, 7, 5, 15, 14, 1, 9],
         [12, 5, 1, 15, 14, 13, 4, 10, 0, 7, 6, 3, 9, 2, 8, 11], [13, 11, 7, 14, 12, 1, 3, 9, 5, 0, 15, 4, 8, 6, 2, 10],
         [6, 15, 14, 9, 11, 3, 0, 8, 12, 2, 13, 7, 1, 4, 10, 5], [10, 2, 8, 4, 7, 6, 1, 5, 15, 11, 9, 14, 3, 12, 13, 0]]
_P = [2, 3, 5, 7, 11, 13, 17, 19]
IV64 = [isqrt(p << 128) & ((1 << 64) - 1) for p in _P]
IV32 = [isqrt(p << 64) & 0xffffffff for p in _P]


def compress(w, h, blk, t, last):
    mask = (1 << w) - 1
    IV = IV64 if w == 64 else IV32
    rot = (32, 24, 16, 63) if w == 64 else (16, 12, 8, 7)
    rounds = 12 if w == 64 else 10
    wb = w // 8
    m = [int.from_bytes(blk[wb * i:wb * i + wb], "little") for i in range(16)]
    v = list(h) + list(IV)
    v[12] ^= t & mask
    v[13] ^= (t >> w) & mask
    if last:
        v[14] ^= mask
    ror = lambda x, k: ((x >> k) | (x << (w - k))) & mask

    def G(a, b, c, d, x, y):
        v[a] = (v[a] + v[b] + x) & mask; v[d] = ror(v[d] ^ v[a], rot[0])
        v[c] = (v[c] + v[d]) & mask; v[b] = ror(v[b] ^ v[c], rot[1])
        v[a] = (v[a] + v[b] + y) & mask; v[d] = ror(v[d] ^ v[a], rot[2])
        v[c] = (v[c] + v[d]) & mask; v[b] = ror(v[b] ^ v[c], rot[3])
    for r in range(rounds):
        s = SIGMA[r % 10]
        G(0, 4, 8, 12, m[s[0]], m[s[1]]); G(1, 5, 9, 13, m[s[2]], m[s[3]]); G(2, 6, 10, 14, m[s[4]], m[s[5]]); G(3, 7, 11, 15, m[s[6]], m[s[7]])
        G(0, 5, 10, 15, m[s[8]], m[s[9]]); G(1, 6, 11, 12, m[s[10]], m[s[11]]); G(2, 7, 8, 13, m[s[12]], m[s[13]]); G(3, 4, 9, 14, m[s[14]], m[s[15]])
    return [h[i] ^ v[i] ^ v[i + 8] for i in range(8)]


def param_words(w, outlen, keylen=0, fanout=1, depth=1, leafl=0, noffset=0, ndepth=0, inner=0, salt=b"", pers=b""):
    l = w // 4
    if w == 64:
        P = bytes([outlen, keylen, fanout, depth]) + leafl.to_bytes(4, "little") + noffset.to_bytes(8, "little") + bytes([ndepth, inner]) + bytes(14)
    else:
        P = bytes([outlen, keylen, fanout, depth]) + leafl.to_bytes(4, "little") + noffset.to_bytes(6, "little") + bytes([ndepth, inner])
    P += salt.ljust(l, b"\0") + pers.ljust(l, b"\0")
    wb = w // 8
    return [int.from_bytes(P[wb * i:wb * i + wb], "little") for i in range(8)]


def initial(w, **params):
    IV = IV64 if w == 64 else IV32
    return [a ^ b for a, b in zip(IV, param_words(w, **params))]


def blake2(w, M, outlen=None, h0=None, t0=0, **params):
    """w = 64 (BLAKE2b) or 32 (BLAKE2s).  M is hashed after t0 bytes already absorbed into chaining value h0."""
    if outlen is None:
        outlen = w
    h = initial(w, outlen=outlen, **params) if h0 is None else list(h0)
    bl = 2 * w
    nblk = max(1, (len(M) + bl - 1) // bl)
    for i in range(nblk):
        blk = M[i * bl:(i + 1) * bl]
        last = i == nblk - 1
        t = t0 + min(len(M), (i + 1) * bl)
        h = compress(w, h, blk.ljust(bl, b"\0"), t, last)
    return b"".join(x.to_bytes(w // 8, "little") for x in h)[:outlen]


def selftest():
    import hashlib, random
    rnd = random.Random(12)
    assert IV64[0] == 0x6a09e667f3bcc908 and IV32[7] == 0x5be0cd19
    assert blake2(64, b"abc").hex().startswith("ba80a53f981c4d0d6a2797b69f12f6e9")      # RFC 7693 appendix A
    assert blake2(32, b"abc").hex() == "508c5e8c327c14e2e1a72ba34eeb452f37458b209ed63a294d999b4c86675982"   # appendix B
    n = 0
    for w, f in ((64, hashlib.blake2b), (32, hashlib.blake2s)):
        bl, l = 2 * w, w // 4
        for ln in list(range(0, 10)) + [bl - 1, bl, bl + 1, 2 * bl - 1, 2 * bl, 2 * bl + 1, 3 * bl + 7, 5 * bl]:
            m = bytes(rnd.randrange(256) for _ in range(ln))
            assert blake2(w, m) == f(m).digest()
            p = dict(fanout=rnd.randrange(256), depth=rnd.randrange(1, 256), leafl=rnd.getrandbits(32),
                     noffset=rnd.getrandbits(64 if w == 64 else 48), ndepth=rnd.randrange(256), inner=rnd.randrange(w + 1))
            salt = bytes(rnd.randrange(256) for _ in range(rnd.choice([0, l])))
            pers = bytes(rnd.randrange(256) for _ in range(rnd.choice([0, l, l // 2])))
            ol = rnd.randrange(1, w + 1)
            key = bytes(rnd.randrange(256) for _ in range(rnd.choice([0, 1, w // 2, w])))
            exp = f(m, digest_size=ol, key=key, salt=salt, person=pers, fanout=p["fanout"], depth=p["depth"], leaf_size=p["leafl"],
                    node_offset=p["noffset"], node_depth=p["ndepth"], inner_size=p["inner"]).digest()
            data = (key.ljust(bl, b"\0") if key else b"") + m
            assert blake2(w, data, ol, keylen=len(key), salt=salt, pers=pers, **p) == exp, (w, ln)
            n += 1
        # resumption
        m = bytes(rnd.randrange(256) for _ in range(2 * bl + 5))
        h = compress(w, initial(w, outlen=w), m[:bl], bl, False)
        assert blake2(w, m[bl:], None, h, bl) == f(m).digest()
    return "BLAKE2b/2s == hashlib on %d (message, parameter block, key) combinations; RFC 7693 appendix vectors; resumption" % n
