# throw-away feasibility prototype: BLAKE-224/256/384/512 from the submission, ints only; constants from pi
from math import isqrt
def pi_frac_bits(nbits):
    # Machin: pi = 16 atan(1/5) - 4 atan(1/239), fixed point with guard bits
    g=nbits+64; one=1<<g
    def atan_inv(x):
        t=one//x; s=t; n=3; x2=x*x; sign=-1
        while t:
            t//=x2; s+=sign*(t//n); sign=-sign; n+=2
        return s
    pi=16*atan_inv(5)-4*atan_inv(239)
    frac=pi-3*one
    return frac>>64
_p=pi_frac_bits(1024)
C64=[(_p>>(64*(15-i)))&((1<<64)-1) for i in range(16)]
C32=[(_p>>(32*(31-i)))&0xffffffff for i in range(16)]
SIG=[[0,1,2,3,4,5,6,7,8,9,10,11,12,13,14,15],[14,10,4,8,9,15,13,6,1,12,0,2,11,7,5,3],[11,8,12,0,5,2,15,13,10,14,3,6,7,1,9,4],
[7,9,3,1,13,12,11,14,2,6,5,10,4,0,15,8],[9,0,5,7,2,4,10,15,14,1,11,12,6,8,3,13],[2,12,6,10,0,11,8,3,4,13,7,5,15,14,1,9],
[12,5,1,15,14,13,4,10,0,7,6,3,9,2,8,11],[13,11,7,14,12,1,3,9,5,0,15,4,8,6,2,10],[6,15,14,9,11,3,0,8,12,2,13,7,1,4,10,5],[10,2,8,4,7,6,1,5,15,11,9,14,3,12,13,0]]
def primes(n):
    p=[];k=2
    while len(p)<n:
        if all(k%q for q in p): p.append(k)
        k+=1
    return p
def sqrt_frac(p,bits): return isqrt(p<<(2*bits))&((1<<bits)-1)
P=primes(16)
IV={256:[sqrt_frac(p,32) for p in P[:8]],512:[sqrt_frac(p,64) for p in P[:8]],
    384:[sqrt_frac(p,64) for p in P[8:16]],224:[sqrt_frac(p,64)&0xffffffff for p in P[8:16]]}
def blake(n,M,bitlen=None,salt=0):
    w=64 if n>256 else 32; mask=(1<<w)-1; Bb=16*w; rounds=16 if w==64 else 14
    C=C64 if w==64 else C32; rot=(32,25,16,11) if w==64 else (16,12,8,7)
    if bitlen is None: bitlen=8*len(M)
    mint=int.from_bytes(M,'big')>>(8*len(M)-bitlen) if len(M) else 0
    L=bitlen
    # pad
    N=(Bb-2-2*w-L)%Bb
    v1=1 if n in (256,512) else 0
    total=L+1+N+1+2*w
    padded=(((((mint<<1)|1)<<N)<<1|v1)<<(2*w))|(L%(1<<(2*w)))
    nblk=total//Bb
    s=[(salt>>(w*(3-i)))&mask for i in range(4)]
    h=list(IV[n])
    ror=lambda x,k:((x>>k)|(x<<(w-k)))&mask
    for b in range(nblk):
        blk=(padded>>(Bb*(nblk-1-b)))&((1<<Bb)-1)
        m=[(blk>>(w*(15-i)))&mask for i in range(16)]
        t=min(L,(b+1)*Bb) if b*Bb<L else 0
        if L==0: t=0
        t0=t&mask; t1=(t>>w)&mask
        v=h+[s[0]^C[0],s[1]^C[1],s[2]^C[2],s[3]^C[3],t0^C[4],t0^C[5],t1^C[6],t1^C[7]]
        def G(a,b_,c,d,r,i):
            p,q=SIG[r%10][2*i],SIG[r%10][2*i+1]
            v[a]=(v[a]+v[b_]+(m[p]^C[q]))&mask; v[d]=ror(v[d]^v[a],rot[0])
            v[c]=(v[c]+v[d])&mask; v[b_]=ror(v[b_]^v[c],rot[1])
            v[a]=(v[a]+v[b_]+(m[q]^C[p]))&mask; v[d]=ror(v[d]^v[a],rot[2])
            v[c]=(v[c]+v[d])&mask; v[b_]=ror(v[b_]^v[c],rot[3])
        for r in range(rounds):
            G(0,4,8,12,r,0);G(1,5,9,13,r,1);G(2,6,10,14,r,2);G(3,7,11,15,r,3)
            G(0,5,10,15,r,4);G(1,6,11,12,r,5);G(2,7,8,13,r,6);G(3,4,9,14,r,7)
        h=[h[i]^s[i%4]^v[i]^v[i+8] for i in range(8)]
    return b''.join(x.to_bytes(w//8,'big') for x in h)[:n//8]
if __name__=='__main__':
    import sys,os; sys.path.insert(0,'/repo')
    print(hex(C64[0]),hex(C32[1]),hex(IV[224][0]),hex(IV[384][0]))
    print(blake(256,b'\0').hex().upper()=="0CE8D4EF4DD7CD8D62DFDED9D4EDB0A774AE6A41929A74DA23109E8F11139C87")
    print(blake(224,b'\0'*72).hex().upper()=="F5AA00DD1CB847E3140372AF7B5C46B4888D82C8C0A917913CFB5D04")
    print(blake(512,b'\0'*144).hex().upper()[:32]=="313717D608E9CF758DCB1EB0F0C3CF9F")
    print(blake(384,b'\0').hex().upper()[:32]=="10281F67E135E90AE8E882251A355510")
    print(blake(256,b'').hex(), blake(512,b'').hex()[:32])
    from crysp.blake import Blake
    bad=0
    for n in (224,256,384,512):
        B=128 if n>256 else 64
        for ln in list(range(0,2*B+3)):
            M=os.urandom(ln)
            if Blake(n)(M)!=blake(n,M): bad+=1; print('diff',n,ln)
        for ln in (1,B-9,B-8,B,B+5):
            M=os.urandom(ln)
            for L in range(max(1,8*ln-8),8*ln+1):
                if Blake(n)(M,s=0x0123456789abcdef<<40,bitlen=L)!=blake(n,M,L,0x0123456789abcdef<<40): bad+=1; print('diffbit',n,ln,L)
    print('bad',bad)
