"""Reference DES / TDEA (FIPS 46-3, SP 800-67) on ints, tables in the standard's 1-based MSB-first numbering.
Imports nothing from crysp.  Tables are typed; the self-test pins them with published vectors, the weak-key
involution and the complementation property (and optionally the OpenSSL CLI)."""

IP = [58, 50, 42, 34, 26, 18, 10, 2, 60, 52, 44, 36, 28, 20, 12, 4, 62, 54, 46, 38, 30, 22, 14, 6, 64, 56, 48, 40, 32, 24, 16, 8,
      57, 49, 41, 33, 25, 17, 9, 1, 59, 51, 43, 35, 27, 19, 11, 3, 61, 53, 45, 37, 29, 21, 13, 5, 63, 55, 47, 39, 31, 23, 15, 7]
FP = [40, 8, 48, 16, 56, 24, 64, 32, 39, 7, 47, 15, 55, 23, 63, 31, 38, 6, 46, 14, 54, 22, 62, 30, 37, 5, 45, 13, 53, 21, 61, 29,
      36, 4, 44, 12, 52, 20, 60, 28, 35, 3, 43, 11, 51, 19, 59, 27, 34, 2, 42, 10, 50, 18, 58, 26, 33, 1, 41, 9, 49, 17, 57, 25]
E = [32, 1, 2, 3, 4, 5, 4, 5, 6, 7, 8, 9, 8, 9, 10, 11, 12, 13, 12, 13, 14, 15, 16, 17,
     16, 17, 18, 19, 20, 21, 20, 21, 22, 23, 24, 25, 24, 25, 26, 27, 28, 29, 28, 29, 30, 31, 32, 1]
P = [16, 7, 20, 21, 29, 12, 28, 17, 1, 15, 23, 26, 5, 18, 31, 10, 2, 8, 24, 14, 32, 27, 3, 9, 19, 13, 30, 6, 22, 11, 4, 25]
PC1 = [57, 49, 41, 33, 25, 17, 9, 1, 58, 50, 42, 34, 26, 18, 10, 2, 59, 51, 43, 35, 27, 19, 11, 3, 60, 52, 44, 36,
       63, 55, 47, 39, 31, 23, 15, 7, 62, 54, 46, 38, 30, 22, 14, 6, 61, 53, 45, 37, 29, 21, 13, 5, 28, 20, 12, 4]
PC2 = [14, 17, 11, 24, 1, 5, 3, 28, 15, 6, 21, 10, 23, 19, 12, 4, 26, 8, 16, 7, 27, 20, 13, 2,
       41, 52, 31, 37, 47, 55, 30, 40, 51, 45, 33, 48, 44, 49, 39, 56, 34, 53, 46, 42, 50, 36, 29, 32]
SHIFTS = [1, 1, 2, 2, 2, 2, 2, 2, 1, 2, 2, 2, 2, 2, 2, 1]
S = [
    [14, 4, 13, 1, 2, 15, 11, 8, 3, 10, 6, 12, 5, 9, 0, 7, 0, 15, 7, 4, 14, 2, 13, 1, 10, 6, 12, 11, 9, 5, 3, 8,
     4, 1, 14, 8, 13, 6, 2, 11, 15, 12, 9, 7, 3, 10, 5, 0, 15, 12, 8, 2, 4, 9, 1, 7, 5, 11, 3, 14, 10, 0, 6, 13],
    [15, 1, 8, 14, 6, 11, 3, 4, 9, 7, 2, 13, 12, 0, 5, 10, 3, 13, 4, 7, 15, 2, 8, 14, 12, 0, 1, 10, 6, 9, 11, 5,
     0, 14, 7, 11, 10, 4, 13, 1, 5, 8, 12, 6, 9, 3, 2, 15, 13, 8, 10, 1, 3, 15, 4, 2, 11, 6, 7, 12, 0, 5, 14, 9],
    [10, 0, 9, 14, 6, 3, 15, 5, 1, 13, 12, 7, 11, 4, 2, 8, 13, 7, 0, 9, 3, 4, 6, 10, 2, 8, 5, 14, 12, 11, 15, 1,
     13, 6, 4, 9, 8, 15, 3, 0, 11, 1, 2, 12, 5, 10, 14, 7, 1, 10, 13, 0, 6, 9, 8, 7, 4, 15, 14, 3, 11, 5, 2, 12],
    [7, 13, 14, 3, 0, 6, 9, 10, 1, 2, 8, 5, 11, 12, 4, 15, 13, 8, 11, 5, 6, 15, 0, 3, 4, 7, 2, 12, 1, 10, 14, 9,
     10, 6, 9, 0, 12, 11, 7, 13, 15, 1, 3, 14, 5, 2, 8, 4, 3, 15, 0, 6, 10, 1, 13, 8, 9, 4, 5, 11, 12, 7, 2, 14],
    [2, 12, 4, 1, 7, 10, 11, 6, 8, 5, 3, 15, 13, 0, 14, 9, 14, 11, 2, 12, 4, 7, 13, 1, 5, 0, 15, 10, 3, 9, 8, 6,
     4, 2, 1, 11, 10, 13, 7, 8, 15, 9, 12, 5, 6, 3, 0, 14, 11, 8, 12, 7, 1, 14, 2, 13, 6, 15, 0, 9, 10, 4, 5, 3],
    [12, 1, 10, 15, 9, 2, 6, 8, 0, 13, 3, 4, 14, 7, 5, 11, 10, 15, 4, 2, 7, 12, 9, 5, 6, 1, 13, 14, 0, 11, 3, 8,
     9, 14, 15, 5, 2, 8, 12, 3, 7, 0, 4, 10, 1, 13, 11, 6, 4, 3, 2, 12, 9, 5, 15, 10, 11, 14, 1, 7, 6, 0, 8, 13],
    [4, 11, 2, 14, 15, 0, 8, 13, 3, 12, 9, 7, 5, 10, 6, 1, 13, 0, 11, 7, 4, 9, 1, 10, 14, 3, 5, 12, 2, 15, 8, 6,
     1, 4, 11, 13, 12, 3, 7, 14, 10, 15, 6, 8, 0, 5, 9, 2, 6, 11, 13, 8, 1, 4, 10, 7, 9, 5, 0, 15, 14, 2, 3, 12],
    [13, 2, 8, 4, 6, 15, 11, 1, 10, 9, 3, 14, 5, 0, 12, 7, 1, 15, 13, 8, 10, 3, 7, 4, 12, 5, 6, 11, 0, 14, 9, 2,
     7, 11, 4, 1, 9, 12, 14, 2, 0, 6, 10, 13, 15, 3, 5, 8, 2, 1, 14, 7, 4, 10, 8, 13, 15, 12, 9, 0, 3, 5, 6, 11],
]


def _perm(v, nin, table):
    out = 0
    for t in table:
        out = (out << 1) | ((v >> (nin - t)) & 1)
    return out


def subkeys(key):
    k = _perm(int.from_bytes(key, "big"), 64, PC1)
    c, d = k >> 28, k & 0xfffffff
    ks = []
    for s in SHIFTS:
        c = ((c << s) | (c >> (28 - s))) & 0xfffffff
        d = ((d << s) | (d >> (28 - s))) & 0xfffffff
        ks.append(_perm((c << 28) | d, 56, PC2))
    return ks


def _f(r, k):
    x = _perm(r, 32, E) ^ k
    out = 0
    for i in range(8):
        six = (x >> (42 - 6 * i)) & 0x3f
        row = ((six >> 4) & 2) | (six & 1)
        col = (six >> 1) & 0xf
        out = (out << 4) | S[i][16 * row + col]
    return _perm(out, 32, P)


def _crypt(key, block, decrypt):
    assert len(key) == 8 and len(block) == 8
    ks = subkeys(key)
    if decrypt:
        ks = ks[::-1]
    v = _perm(int.from_bytes(block, "big"), 64, IP)
    l, r = v >> 32, v & 0xffffffff
    for k in ks:
        l, r = r, l ^ _f(r, k)
    return _perm((r << 32) | l, 64, FP).to_bytes(8, "big")


def enc(key, block):
    return _crypt(key, block, False)


def dec(key, block):
    return _crypt(key, block, True)


def tdea_enc(k1, k2, k3, block):
    return enc(k3, dec(k2, enc(k1, block)))


def tdea_dec(k1, k2, k3, block):
    return dec(k1, enc(k2, dec(k3, block)))


WEAK = ["0101010101010101", "fefefefefefefefe", "e0e0e0e0f1f1f1f1", "1f1f1f1f0e0e0e0e"]
SEMIWEAK = [("011f011f010e010e", "1f011f010e010e01"), ("01e001e001f101f1", "e001e001f101f101"),
            ("01fe01fe01fe01fe", "fe01fe01fe01fe01"), ("1fe01fe00ef10ef1", "e01fe01ff10ef10e"),
            ("1ffe1ffe0efe0efe", "fe1ffe1ffe0efe0e"), ("e0fee0fef1fef1fe", "fee0fee0fef1fef1")]


def selftest():
    import random, subprocess, shutil
    h = bytes.fromhex
    assert enc(h("133457799BBCDFF1"), h("0123456789ABCDEF")) == h("85E813540F0AB405")
    assert enc(h("0123456789ABCDEF"), b"Now is t") == h("3FA40E8A984D4815")
    assert enc(h("0123456789ABCDEF"), b"he time ") == h("6A271787AB8883F9")
    # NBS "variable plaintext" / "variable key" known answers
    assert enc(h("0101010101010101"), h("8000000000000000")) == h("95F8A5E5DD31D900")
    assert enc(h("8001010101010101"), h("0000000000000000")) == h("95A8D72813DAA94D")
    # table-sensitive: S-box known answer tests from NBS SP 500-20 (first few)
    assert enc(h("7CA110454A1A6E57"), h("01A1D6D039776742")) == h("690F5B0D9A26939B")
    assert enc(h("0131D9619DC1376E"), h("5CD54CA83DEF57DA")) == h("7A389D10354BD271")
    rnd = random.Random(2)
    for wk in WEAK:
        b = bytes(rnd.randrange(256) for _ in range(8))
        assert enc(h(wk), enc(h(wk), b)) == b
    for a, b_ in SEMIWEAK:
        b = bytes(rnd.randrange(256) for _ in range(8))
        assert dec(h(b_), b) == enc(h(a), b)
    for _ in range(20):
        k = bytes(rnd.randrange(256) for _ in range(8))
        b = bytes(rnd.randrange(256) for _ in range(8))
        c = enc(k, b)
        assert dec(k, c) == b
        assert enc(bytes(x ^ 0xff for x in k), bytes(x ^ 0xff for x in b)) == bytes(x ^ 0xff for x in c)
    note = "openssl cross-check skipped"
    exe = shutil.which("openssl")
    if exe:
        try:
            k = bytes(rnd.randrange(256) for _ in range(8))
            data = bytes(rnd.randrange(256) for _ in range(8 * 64))
            out = subprocess.run([exe, "enc", "-des-ecb", "-nopad", "-K", k.hex(), "-provider", "legacy", "-provider", "default"],
                                 input=data, capture_output=True, timeout=20)
            if out.returncode == 0 and len(out.stdout) == len(data):
                assert out.stdout == b"".join(enc(k, data[i:i + 8]) for i in range(0, len(data), 8))
                k3 = bytes(rnd.randrange(256) for _ in range(24))
                out = subprocess.run([exe, "enc", "-des-ede3", "-nopad", "-K", k3.hex(), "-provider", "legacy", "-provider", "default"],
                                     input=data, capture_output=True, timeout=20)
                if out.returncode == 0 and len(out.stdout) == len(data):
                    assert out.stdout == b"".join(tdea_enc(k3[:8], k3[8:16], k3[16:], data[i:i + 8]) for i in range(0, len(data), 8))
                    note = "DES and 3DES == openssl CLI on 64 random blocks"
        except (OSError, subprocess.TimeoutExpired):
            pass
    return "DES vectors (FIPS 81 / NBS SP 500-20), weak+semi-weak keys, complementation; " + note
