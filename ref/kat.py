"""Reference self-tests: ./vcheck selftest runs every SELFTESTS entry of every property module."""
import importlib, os, sys, traceback

def main():
    here = os.path.dirname(os.path.dirname(os.path.abspath(__file__)))
    bad = 0
    seen = set()
    for fn in sorted(os.listdir(os.path.join(here, "props"))):
        if not (fn.startswith("c") and fn.endswith(".py")):
            continue
        mod = importlib.import_module("props." + fn[:-3])
        for name, f in getattr(mod, "SELFTESTS", []):
            if name in seen:
                continue
            seen.add(name)
            try:
                print("selftest %-24s ok: %s" % (name, f()))
            except Exception:
                traceback.print_exc()
                print("selftest %-24s FAILED" % name)
                bad += 1
    # the known-findings filter itself (no entry is open at present, so no registered run exercises it)
    try:
        from vlib.core import match_open
        fl = [{"id": "X1", "status": "open", "facet": "cuts-*", "signature": "sig-a"}, {"id": "X2", "status": "fixed", "facet": "*", "signature": "sig-b"}]
        assert match_open(fl, "cuts-sampled", "sig-a") == "X1"          # listed open finding: excluded and counted
        assert match_open(fl, "cuts-sampled", "sig-a:other") is None    # another failure mode at the same site: still a violation
        assert match_open(fl, "other-facet", "sig-a") is None
        assert match_open(fl, "cuts-sampled", "sig-b") is None          # fixed entries suppress nothing
        print("selftest %-24s ok: open entries match by (facet glob, signature); fixed entries suppress nothing" % "findings-filter")
    except Exception:
        traceback.print_exc()
        print("selftest %-24s FAILED" % "findings-filter")
        bad += 1
    return 2 if bad else 0
