"""Reference self-tests: ./vcheck selftest runs every SELFTESTS entry of every property module."""
import importlib, os, sys, traceback

def main():
    here = os.path.dirname(os.path.dirname(os.path.abspath(__file__)))
    bad = 0
    seen = set()
    for fn in sorted(os.listdir(os.path.join(here, "props"))):
        if not (fn.startswith("c") and fn.endswith(".py")):
            continue
        mod = importlib.import_module("props." + fn[:-3])
        for name, f in getattr(mod, "SELFTESTS", []):
            if name in seen:
                continue
            seen.add(name)
            try:
                print("selftest %-24s ok: %s" % (name, f()))
            except Exception:
                traceback.print_exc()
                print("selftest %-24s FAILED" % name)
                bad += 1
    return 2 if bad else 0
