"""Reference Keccak-f[b] (b = 25..1600), sponge[b,r] with pad10*1 on bit lists, duplex objects, SHA-3/SHAKE.
Round constants from the degree-8 LFSR, rho offsets from the (t+1)(t+2)/2 walk (FIPS 202, section 3.2).
Both message bit conventions: native LSB-first and the NIST/KAT MSB-first partial last byte
(Keccak submission, section 6.1).  Imports nothing from crysp."""
def rc_bits():
    # LFSR x^8+x^6+x^5+x^4+1
    R=1; out=[]
    for t in range(255):
        out.append(R&1)
        R<<=1
        if R&0x100: R^=0x171
    return out
_rc=rc_bits()
def RC(i,w):
    v=0
    for j in range(7):
        if _rc[(j+7*i)%255]: 
            pos=(1<<j)-1
            if pos<w: v|=1<<pos
    return v
def rho_offsets():
    off={(0,0):0}; x,y=1,0
    for t in range(24):
        off[(x,y)]=((t+1)*(t+2)//2)
        x,y=y,(2*x+3*y)%5
    return off
RHO=rho_offsets()
def f(A,w):
    mask=(1<<w)-1; l={1:0,2:1,4:2,8:3,16:4,32:5,64:6}[w]
    rot=lambda v,n:((v<<(n%w))|(v>>((w-n%w)%w)))&mask if w>1 else v
    for i in range(12+2*l):
        C=[A[x][0]^A[x][1]^A[x][2]^A[x][3]^A[x][4] for x in range(5)]
        D=[C[(x-1)%5]^rot(C[(x+1)%5],1) for x in range(5)]
        A=[[A[x][y]^D[x] for y in range(5)] for x in range(5)]
        B=[[0]*5 for _ in range(5)]
        for x in range(5):
            for y in range(5): B[y][(2*x+3*y)%5]=rot(A[x][y],RHO[(x,y)])
        A=[[B[x][y]^((~B[(x+1)%5][y])&mask&B[(x+2)%5][y]) for y in range(5)] for x in range(5)]
        A[0][0]^=RC(i,w)
    return A
def sponge(b,r,bits,d):
    w=b//25
    P=bits+[1]+[0]*((-len(bits)-2)%r)+[1]
    A=[[0]*5 for _ in range(5)]
    for k in range(0,len(P),r):
        blk=P[k:k+r]+[0]*(b-r)
        for i in range(25):
            lane=sum(blk[i*w+z]<<z for z in range(w))
            A[i%5][i//5]^=lane
        A=f(A,w)
    out=[]
    while True:
        st=[ (A[i%5][i//5]>>z)&1 for i in range(25) for z in range(w)]
        out+=st[:r]
        if len(out)>=d: return out[:d]
        A=f(A,w)
def msgbits(M,L,nist):
    bits=[]
    q,n=divmod(L,8)
    for byte in M[:q]: bits+=[(byte>>i)&1 for i in range(8)]
    if n:
        byte=M[q]
        v=(byte>>(8-n)) if nist else byte
        bits+=[(v>>i)&1 for i in range(n)]
    return bits
def pack(bits):
    bits=bits+[0]*((-len(bits))%8)
    return bytes(sum(bits[i+j]<<j for j in range(8)) for i in range(0,len(bits),8))


def keccak(b, r, M, L, d, nist=True, suffix=()):
    """first d output bits (packed LSB-first) of Keccak[b, r] on the first L bits of M (+ suffix bits)"""
    return pack(sponge(b, r, msgbits(M, L, nist) + list(suffix), d))


class Duplex(object):
    """duplex construction (Cryptographic Sponge Functions, section 2.3): state persists across calls"""
    def __init__(self, b, r):
        self.b, self.r, self.w = b, r, b // 25
        self.A = [[0] * 5 for _ in range(5)]

    def duplexing(self, bits, outlen):
        assert len(bits) <= self.r - 2 and outlen <= self.r
        P = bits + [1] + [0] * (self.r - len(bits) - 2) + [1]
        blk = P + [0] * (self.b - self.r)
        w = self.w
        for i in range(25):
            lane = sum(blk[i * w + z] << z for z in range(w))
            self.A[i % 5][i // 5] ^= lane
        self.A = f(self.A, w)
        st = [(self.A[i % 5][i // 5] >> z) & 1 for i in range(25) for z in range(w)]
        return st[:outlen]


def selftest():
    import hashlib, random
    assert RC(0, 64) == 1 and RC(1, 64) == 0x8082 and RC(2, 64) == 0x800000000000808A and RC(23, 64) == 0x8000000080008008
    assert RHO[(1, 0)] % 64 == 1 and RHO[(2, 0)] % 64 == 62 and RHO[(0, 2)] % 64 == 3 and RHO[(4, 4)] % 64 == 14
    rnd = random.Random(9)
    n = 0
    for ln in list(range(0, 12)) + [71, 72, 73, 103, 104, 135, 136, 137, 143, 144, 145, 167, 168, 169, 200, 300]:
        m = bytes(rnd.randrange(256) for _ in range(ln))
        bits = msgbits(m, 8 * ln, False)
        for size, rate in ((224, 1152), (256, 1088), (384, 832), (512, 576)):
            assert pack(sponge(1600, rate, bits + [0, 1], size)) == hashlib.new("sha3_%d" % size, m).digest()
        assert pack(sponge(1600, 1344, bits + [1, 1, 1, 1], 8 * 200)) == hashlib.shake_128(m).digest(200)
        assert pack(sponge(1600, 1088, bits + [1, 1, 1, 1], 8 * 300)) == hashlib.shake_256(m).digest(300)
        n += 1
    # KeccakKAT: b=200 (r=40, Len=43) as quoted in tests/test_keccak.py, and the Keccak[r=1024] 29-bit message prefix
    assert keccak(200, 40, bytes.fromhex("F219BD629820"), 43, 160).hex().upper() == "C8F9476DBF0B0FE01F80629FD5689097AAAC6732"
    assert keccak(1600, 1024, b"\x53\x58\x7b\xc8", 29, 64).hex().upper() == "2F07BF03B8246646"
    assert keccak(800, 512, b"\x48", 5, 512).hex().upper().startswith("BF4D7E53D63D9FEB016FCD2FE2F38DEB")
    # duplex vectors (r=1027) quoted in tests/test_keccak.py
    D = Duplex(1600, 1027)
    assert pack(D.duplexing([], 1027)).hex().upper().startswith("E6F80B3637E0F7D50F4CD36C3A293AD3")
    assert pack(D.duplexing([0], 1027)).hex().upper().startswith("A4AC5C6E75D41EAFAA6B9E261FFBC14D")
    assert pack(D.duplexing([1, 1], 1027)).hex().upper().startswith("F8B98D98CE69529838CDCDC76BEC0A88")
    return "Keccak RC/rho derived; SHA3-n and SHAKE == hashlib on %d lengths; KeccakKAT b=200/800/1600; duplex r=1027 vectors" % n
