# throw-away feasibility prototype: Keccak-f[b], sponge[b,r] on bit lists, both bit conventions
def rc_bits():
    # LFSR x^8+x^6+x^5+x^4+1
    R=1; out=[]
    for t in range(255):
        out.append(R&1)
        R<<=1
        if R&0x100: R^=0x171
    return out
_rc=rc_bits()
def RC(i,w):
    v=0
    for j in range(7):
        if _rc[(j+7*i)%255]: 
            pos=(1<<j)-1
            if pos<w: v|=1<<pos
    return v
def rho_offsets():
    off={(0,0):0}; x,y=1,0
    for t in range(24):
        off[(x,y)]=((t+1)*(t+2)//2)
        x,y=y,(2*x+3*y)%5
    return off
RHO=rho_offsets()
def f(A,w):
    mask=(1<<w)-1; l={1:0,2:1,4:2,8:3,16:4,32:5,64:6}[w]
    rot=lambda v,n:((v<<(n%w))|(v>>((w-n%w)%w)))&mask if w>1 else v
    for i in range(12+2*l):
        C=[A[x][0]^A[x][1]^A[x][2]^A[x][3]^A[x][4] for x in range(5)]
        D=[C[(x-1)%5]^rot(C[(x+1)%5],1) for x in range(5)]
        A=[[A[x][y]^D[x] for y in range(5)] for x in range(5)]
        B=[[0]*5 for _ in range(5)]
        for x in range(5):
            for y in range(5): B[y][(2*x+3*y)%5]=rot(A[x][y],RHO[(x,y)])
        A=[[B[x][y]^((~B[(x+1)%5][y])&mask&B[(x+2)%5][y]) for y in range(5)] for x in range(5)]
        A[0][0]^=RC(i,w)
    return A
def sponge(b,r,bits,d):
    w=b//25
    P=bits+[1]+[0]*((-len(bits)-2)%r)+[1]
    A=[[0]*5 for _ in range(5)]
    for k in range(0,len(P),r):
        blk=P[k:k+r]+[0]*(b-r)
        for i in range(25):
            lane=sum(blk[i*w+z]<<z for z in range(w))
            A[i%5][i//5]^=lane
        A=f(A,w)
    out=[]
    while True:
        st=[ (A[i%5][i//5]>>z)&1 for i in range(25) for z in range(w)]
        out+=st[:r]
        if len(out)>=d: return out[:d]
        A=f(A,w)
def msgbits(M,L,nist):
    bits=[]
    q,n=divmod(L,8)
    for byte in M[:q]: bits+=[(byte>>i)&1 for i in range(8)]
    if n:
        byte=M[q]
        v=(byte>>(8-n)) if nist else byte
        bits+=[(v>>i)&1 for i in range(n)]
    return bits
def pack(bits):
    bits=bits+[0]*((-len(bits))%8)
    return bytes(sum(bits[i+j]<<j for j in range(8)) for i in range(0,len(bits),8))
if __name__=='__main__':
    import sys,os,hashlib,random; sys.path.insert(0,'/repo')
    from crysp.keccak import Keccak
    print(hex(RC(0,64)),hex(RC(2,64)),hex(RC(23,64)),RHO[(2,0)],RHO[(3,1)],RHO[(1,1)])
    m=b'abc'
    print(pack(sponge(1600,1088,msgbits(m,24,False)+[0,1],256))==hashlib.sha3_256(m).digest())
    print(pack(sponge(1600,1344,msgbits(m,24,False)+[1,1,1,1],8*300))==hashlib.shake_128(m).digest(300))
    print(pack(sponge(200,40,msgbits(bytes.fromhex("F219BD629820"),43,True),160)).hex().upper()=="C8F9476DBF0B0FE01F80629FD5689097AAAC6732")
    rnd=random.Random(5); bad=0; tot=0
    for b in (25,50,100,200,400,800,1600):
        for _ in range(25):
            r=rnd.choice([x for x in (8,9,12,16,17,24,b-1,b-2,b//2,40,64) if 8<=x<b and x<=1536])
            L=rnd.choice([0,1,7,8,9,r-2,r,r+1,2*r-2,2*r+3,3*r])
            if L%r==r-1: L+=1
            M=bytes(rnd.randrange(256) for _ in range((L+7)//8))
            d=rnd.choice([1,8,r-1,r,r+1,2*r+3])
            for nist in (True,False):
                k=Keccak(b=b,r=r,len=d); k.duplexing=not nist
                tot+=1
                got=k(M,bitlen=L) if L else k(M)
                exp=pack(sponge(b,r,msgbits(M,L,nist),d))
                if got!=exp: bad+=1; print('diff',b,r,L,d,nist)
    print('bad',bad,'of',tot)
