"""Reference MD6 (Rivest et al., "The MD6 hash function", 2008): compression function over 89-word inputs, 4-ary tree
(PAR) levels up to L, sequential (SEQ) level L+1, control word V = r|L|z|p|keylen|d, node ids U = level|index,
final d bits of the root, left-aligned in ceil(d/8) bytes (md6_mode.c trim_hashval).  Q = fractional part of sqrt(6).
Imports nothing from crysp."""
from math import isqrt
M64=(1<<64)-1
def _Q():
    # fractional part of sqrt(6), 15*64 bits
    bits=15*64
    v=isqrt(6<<(2*bits))   # floor(sqrt(6)*2^bits)
    frac=v-(2<<bits)       # sqrt(6)=2.449..
    return [(frac>>(64*(14-i)))&M64 for i in range(15)]
Q=_Q()
RS=[10,5,13,10,11,12,2,7,14,15,7,13,11,7,6,12]
LS=[11,24,9,16,15,9,27,15,6,2,29,8,15,5,31,9]
T=(17,18,21,31,67)
def compress(N,r):
    A=list(N); n=89; S=0x0123456789abcdef; Sm=0x7311c2812425cfa0
    for j in range(r):
        for s in range(16):
            i=n+16*j+s
            x=S^A[i-n]^A[i-T[0]]
            x^=(A[i-T[1]]&A[i-T[2]])^(A[i-T[3]]&A[i-T[4]])
            x^=x>>RS[s]
            x=(x^(x<<LS[s]))&M64
            A.append(x)
        S=(((S<<1)|(S>>63))&M64)^(S&Sm)
    return A[-16:]
def words(bs): return [int.from_bytes(bs[i:i+8],'big') for i in range(0,len(bs),8)]
def md6(M,bitlen=None,d=256,key=b'',L=64,r=None):
    if bitlen is None: bitlen=8*len(M)
    # message as bit string integer
    nb=(bitlen+7)//8
    M=bytearray(M[:nb])
    if bitlen%8: M[-1]&=(0xff<<(8-bitlen%8))&0xff
    M=bytes(M)
    if r is None:
        r=40+d//4
        if key: r=max(80,r)
    K=words(key.ljust(64,b'\0')); kl=len(key)
    def V(z,p): return (r<<48)|(L<<40)|(z<<36)|(p<<20)|(kl<<12)|d
    def par(M,bits,lvl):
        B=512
        nblk=max(1,(len(M)+B-1)//B)
        out=b''
        for i in range(nblk):
            blk=M[i*B:(i+1)*B]
            p=0
            if i==nblk-1:
                used=bits-i*4096
                p=4096-used
            blk=blk.ljust(B,b'\0')
            z=1 if nblk==1 else 0
            N=Q+K+[(lvl<<56)|i,V(z,p)]+words(blk)
            C=compress(N,r)
            out+=b''.join(c.to_bytes(8,'big') for c in C)
        return out
    def seq(M,bits,lvl):
        B=384
        nblk=max(1,(len(M)+B-1)//B)
        C=[0]*16
        for i in range(nblk):
            blk=M[i*B:(i+1)*B]
            p=0; z=0
            if i==nblk-1:
                p=3072-(bits-i*3072); z=1
            blk=blk.ljust(B,b'\0')
            N=Q+K+[(lvl<<56)|i,V(z,p)]+C+words(blk)
            C=compress(N,r)
        return b''.join(c.to_bytes(8,'big') for c in C)
    lvl=0; bits=bitlen
    while True:
        lvl+=1
        if lvl==L+1:
            M=seq(M,bits,lvl); break
        M=par(M,bits,lvl); bits=8*len(M)
        if len(M)==128: break
    v=int.from_bytes(M,'big')&((1<<d)-1)
    nby=(d+7)//8
    return (v<<(8*nby-d)).to_bytes(nby,'big')


def selftest():
    assert Q[0] == 0x7311c2812425cfa0 and Q[14] == 0x0d6f3522631effcb
    # worked examples of the MD6 report (section "Sample computations"), as quoted in tests/test_md.py
    assert md6(b"abc", d=256, r=5).hex() == "8854c14dc284f840ed71ad7ba542855ce189633e48c797a55121a746be48cec8"
    m = b"".join([bytes.fromhex("11223344556677")] * 85 + [bytes.fromhex("1122334455")])
    assert md6(m, d=224, key=b"abcde12345", r=5).hex() == "894cf0598ad3288ed4bb5ac5df23eba0ac388a11b7ed2e3dd5ec5131"
    m = b"".join([bytes.fromhex("11223344556677")] * 114 + [b"\x11\x22"])
    assert md6(m, d=256, L=0).hex() == "4e78ab5ec8926a3db0dcfa09ed48de6c33a7399e70f01ebfc02abb52767594e2"
    # published MD6-256 digests of "" and "abc" (default rounds, L = 64)
    assert md6(b"", d=256).hex() == "bca38b24a804aa37d821d31af00f5598230122c5bbfc4c4ad5ed40e4258f04ca"
    assert md6(b"abc", d=256).hex() == "230637d4e6845cf0d092b558e87625f03881dd53a7439da34cf3b94ed0d8b2c5"
    assert md6(b"The quick brown fox jumps over the lazy dog", d=256).hex() == "977592608c45c9923340338450fdcccc21a68888e1e6350e133c5186cd9736ee"
    assert md6(b"", d=128).hex() == "032f75b3ca02a393196a818328bd32e8" and md6(b"", d=512).hex().startswith("6b7f33821a2c060ecdd81aefddea2fd3c4720270")
    return "MD6 Q from sqrt(6); 3 worked examples of the report (tree, keyed, sequential), MD6-256('') and ('abc')"
