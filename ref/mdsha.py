"""Reference MD4 (RFC 1320), MD5 (RFC 1321), SHA-0/SHA-1/SHA-2 incl. SHA-512/t (FIPS 180-4) on plain ints.
Bit-granular (message = first L bits of M) and resumable from a chaining state (H, bits already hashed).
Constants are derived (prime roots, |sin|) where the standards define them that way.  Imports nothing from crysp."""
import math
from math import isqrt
from . import padref

M32 = 0xffffffff
M64 = (1 << 64) - 1


def _primes(n):
    p, k = [], 2
    while len(p) < n:
        if all(k % q for q in p):
            p.append(k)
        k += 1
    return p


def _icbrt(n):
    x = int(round(n ** (1.0 / 3)))
    while x * x * x > n:
        x -= 1
    while (x + 1) ** 3 <= n:
        x += 1
    return x


_P = _primes(80)
K256 = [_icbrt(p << 96) & M32 for p in _P[:64]]
K512 = [_icbrt(p << 192) & M64 for p in _P[:80]]
IV = {
    ("sha2", 256): [isqrt(p << 64) & M32 for p in _P[:8]],
    ("sha2", 224): [isqrt(p << 128) & M32 for p in _P[8:16]],
    ("sha2", 512): [isqrt(p << 128) & M64 for p in _P[:8]],
    ("sha2", 384): [isqrt(p << 128) & M64 for p in _P[8:16]],
}
T5 = [int(abs(math.sin(i + 1)) * 4294967296) & M32 for i in range(64)]
IV_MD = [0x67452301, 0xefcdab89, 0x98badcfe, 0x10325476]
IV_SHA1 = IV_MD + [0xc3d2e1f0]


def rol32(x, n):
    return ((x << n) | (x >> (32 - n))) & M32


def ror(x, n, w):
    return ((x >> n) | (x << (w - n))) & ((1 << w) - 1)


def md4_compress(H, blk):
    X = [int.from_bytes(blk[4 * i:4 * i + 4], "little") for i in range(16)]
    a, b, c, d = H
    F = lambda x, y, z: (x & y) | (~x & z)
    G = lambda x, y, z: (x & y) | (x & z) | (y & z)
    Hh = lambda x, y, z: x ^ y ^ z
    for i in range(16):
        s = (3, 7, 11, 19)[i % 4]
        a, b, c, d = d, rol32((a + F(b, c, d) + X[i]) & M32, s), b, c
    for i in range(16):
        k = (i % 4) * 4 + i // 4
        s = (3, 5, 9, 13)[i % 4]
        a, b, c, d = d, rol32((a + G(b, c, d) + X[k] + 0x5a827999) & M32, s), b, c
    order = (0, 8, 4, 12, 2, 10, 6, 14, 1, 9, 5, 13, 3, 11, 7, 15)
    for i in range(16):
        s = (3, 9, 11, 15)[i % 4]
        a, b, c, d = d, rol32((a + Hh(b, c, d) + X[order[i]] + 0x6ed9eba1) & M32, s), b, c
    return [(x + y) & M32 for x, y in zip(H, (a, b, c, d))]


def md5_compress(H, blk):
    X = [int.from_bytes(blk[4 * i:4 * i + 4], "little") for i in range(16)]
    a, b, c, d = H
    S = ((7, 12, 17, 22), (5, 9, 14, 20), (4, 11, 16, 23), (6, 10, 15, 21))
    for i in range(64):
        r = i // 16
        if r == 0:
            f, g = (b & c) | (~b & d), i
        elif r == 1:
            f, g = (d & b) | (~d & c), (5 * i + 1) % 16
        elif r == 2:
            f, g = b ^ c ^ d, (3 * i + 5) % 16
        else:
            f, g = c ^ (b | (~d & M32)), (7 * i) % 16
        t = (a + f + T5[i] + X[g]) & M32
        a, d, c, b = d, c, b, (b + rol32(t, S[r][i % 4])) & M32
    return [(x + y) & M32 for x, y in zip(H, (a, b, c, d))]


def sha1_compress(H, blk, version=1):
    W = [int.from_bytes(blk[4 * i:4 * i + 4], "big") for i in range(16)]
    for t in range(16, 80):
        x = W[t - 3] ^ W[t - 8] ^ W[t - 14] ^ W[t - 16]
        W.append(rol32(x, 1) if version == 1 else x)
    a, b, c, d, e = H
    for t in range(80):
        if t < 20:
            f, k = (b & c) | (~b & d), 0x5a827999
        elif t < 40:
            f, k = b ^ c ^ d, 0x6ed9eba1
        elif t < 60:
            f, k = (b & c) | (b & d) | (c & d), 0x8f1bbcdc
        else:
            f, k = b ^ c ^ d, 0xca62c1d6
        T = (rol32(a, 5) + (f & M32) + e + k + W[t]) & M32
        a, b, c, d, e = T, a, rol32(b, 30), c, d
    return [(x + y) & M32 for x, y in zip(H, (a, b, c, d, e))]


def sha2_compress(H, blk, w):
    mask = (1 << w) - 1
    wb = w // 8
    W = [int.from_bytes(blk[wb * i:wb * i + wb], "big") for i in range(16)]
    if w == 32:
        K, n = K256, 64
        S0 = lambda x: ror(x, 2, w) ^ ror(x, 13, w) ^ ror(x, 22, w)
        S1 = lambda x: ror(x, 6, w) ^ ror(x, 11, w) ^ ror(x, 25, w)
        s0 = lambda x: ror(x, 7, w) ^ ror(x, 18, w) ^ (x >> 3)
        s1 = lambda x: ror(x, 17, w) ^ ror(x, 19, w) ^ (x >> 10)
    else:
        K, n = K512, 80
        S0 = lambda x: ror(x, 28, w) ^ ror(x, 34, w) ^ ror(x, 39, w)
        S1 = lambda x: ror(x, 14, w) ^ ror(x, 18, w) ^ ror(x, 41, w)
        s0 = lambda x: ror(x, 1, w) ^ ror(x, 8, w) ^ (x >> 7)
        s1 = lambda x: ror(x, 19, w) ^ ror(x, 61, w) ^ (x >> 6)
    for t in range(16, n):
        W.append((s1(W[t - 2]) + W[t - 7] + s0(W[t - 15]) + W[t - 16]) & mask)
    a, b, c, d, e, f, g, h = H
    for t in range(n):
        T1 = (h + S1(e) + ((e & f) ^ (~e & g)) + K[t] + W[t]) & mask
        T2 = (S0(a) + ((a & b) ^ (a & c) ^ (b & c))) & mask
        a, b, c, d, e, f, g, h = (T1 + T2) & mask, a, b, c, (d + T1) & mask, e, f, g
    return [(x + y) & mask for x, y in zip(H, (a, b, c, d, e, f, g, h))]


def _sha512t_iv(t):
    H0 = [x ^ 0xa5a5a5a5a5a5a5a5 for x in IV[("sha2", 512)]]
    d = _run("sha512", ("SHA-512/%d" % t).encode(), None, H0, 0, raw=True)
    return [int.from_bytes(d[8 * i:8 * i + 8], "big") for i in range(8)]


ALGS = {
    # name: (block bits, word bits, pad scheme, endianness, digest bytes)
    "md4": (512, 32, "md", "little", 16), "md5": (512, 32, "md", "little", 16),
    "sha0": (512, 32, "sha", "big", 20), "sha1": (512, 32, "sha", "big", 20),
    "sha224": (512, 32, "sha", "big", 28), "sha256": (512, 32, "sha", "big", 32),
    "sha384": (1024, 64, "sha", "big", 48), "sha512": (1024, 64, "sha", "big", 64),
    "sha512_224": (1024, 64, "sha", "big", 28), "sha512_256": (1024, 64, "sha", "big", 32),
}


def initial(alg):
    if alg in ("md4", "md5"):
        return list(IV_MD)
    if alg in ("sha0", "sha1"):
        return list(IV_SHA1)
    if alg in ("sha224", "sha256", "sha384", "sha512"):
        return list(IV[("sha2", int(alg[3:]))])
    if alg == "sha512_224":
        return list(_IVT[224])
    if alg == "sha512_256":
        return list(_IVT[256])
    raise ValueError(alg)


def _compress(alg, H, blk):
    if alg == "md4":
        return md4_compress(H, blk)
    if alg == "md5":
        return md5_compress(H, blk)
    if alg == "sha0":
        return sha1_compress(H, blk, 0)
    if alg == "sha1":
        return sha1_compress(H, blk, 1)
    return sha2_compress(H, blk, ALGS[alg][1])


def _run(alg, M, L, H, count0, raw=False):
    B, w, scheme, endian, dlen = ALGS[alg]
    v, L = padref.msgbits(M, L)
    total = count0 + L
    # pad the tail as if it were the whole message, then overwrite the length field with the true total
    cs = 2 * w
    N = (B - 1 - cs - L) % B
    body = padref.tobytes(((v << 1) | 1) << N, L + 1 + N)
    padded = body + (total % (1 << cs)).to_bytes(cs // 8, endian)
    H = list(H)
    bl = B // 8
    for i in range(0, len(padded), bl):
        H = _compress(alg, H, padded[i:i + bl])
    out = b"".join(x.to_bytes(w // 8, endian) for x in H)
    return out if raw else out[:dlen]


def digest(alg, M, L=None, H=None, count0=0):
    """digest of the first L bits of M (all of M if L is None), optionally resuming from chaining
    value H after count0 bits (a multiple of the block size) were already hashed"""
    return _run(alg, M, L, initial(alg) if H is None else H, count0)


_IVT = {}
_IVT[224] = _sha512t_iv(224)
_IVT[256] = _sha512t_iv(256)


def selftest():
    import hashlib, random
    rnd = random.Random(11)
    assert K256[0] == 0x428a2f98 and K512[79] == 0x6c44198c4a475817 and T5[0] == 0xd76aa478 and T5[63] == 0xeb86d391
    assert IV[("sha2", 224)][0] == 0xc1059ed8 and _IVT[256][0] == 0x22312194FC2BF72C and _IVT[224][7] == 0x1112E6AD91D692A1
    n = 0
    for alg in ("md5", "sha1", "sha224", "sha256", "sha384", "sha512", "sha512_224", "sha512_256"):
        B = ALGS[alg][0] // 8
        lens = list(range(0, 2 * B + 10)) + [3 * B - 1, 3 * B, 5 * B + 3]
        for ln in lens:
            m = bytes(rnd.randrange(256) for _ in range(ln))
            assert digest(alg, m) == hashlib.new(alg, m).digest(), (alg, ln)
            assert digest(alg, m, 8 * ln) == hashlib.new(alg, m).digest()
            n += 1
    # RFC 1320 test suite
    for m, d in ((b"", "31d6cfe0d16ae931b73c59d7e0c089c0"), (b"a", "bde52cb31de33e46245e05fbdbd6fb24"),
                 (b"abc", "a448017aaf21d8525fc10ae87aa6729d"), (b"message digest", "d9130a8164549fe818874806e1c7014b"),
                 (b"abcdefghijklmnopqrstuvwxyz", "d79e1c308aa5bbcdeea8ed63df412da9"),
                 (b"12345678901234567890123456789012345678901234567890123456789012345678901234567890", "e33b4ddc9c38f2199c3e7b164fcc0536")):
        assert digest("md4", m).hex() == d
    assert digest("sha0", b"abc").hex() == "0164b8a914cd2a5e74c4f7ff082c4d97f1edf880"
    # bit-granular path: NIST SHA-1 / SHA-256 bit-oriented short message examples
    assert digest("sha1", b"\x98", 5).hex() == "29826b003b906e660eff4027ce98af3531ac75ba"
    assert digest("sha256", b"\x68", 5).hex() == "d6d3e02a31a84a8caa9718ed6c2057be09db45e7823eb5079ce7a573a3760f95"
    # resumable: hashing two blocks == resuming after the first
    for alg in ALGS:
        B = ALGS[alg][0] // 8
        m = bytes(rnd.randrange(256) for _ in range(2 * B + 7))
        H1 = _compress(alg, initial(alg), m[:B])
        assert digest(alg, m) == digest(alg, m[B:], None, H1, 8 * B)
    note = "; openssl md4 cross-check skipped"
    import shutil, subprocess
    exe = shutil.which("openssl")
    if exe:
        try:
            ok = 0
            for ln in (0, 1, 55, 56, 64, 119, 120, 300):
                m = bytes(rnd.randrange(256) for _ in range(ln))
                out = subprocess.run([exe, "dgst", "-md4", "-binary", "-provider", "legacy", "-provider", "default"], input=m, capture_output=True, timeout=20)
                if out.returncode == 0 and len(out.stdout) == 16:
                    assert out.stdout == digest("md4", m), ln
                    ok += 1
            if ok:
                note = "; MD4 == openssl CLI on %d inputs" % ok
        except (OSError, subprocess.TimeoutExpired):
            pass
    return ("MD5/SHA-1/SHA-2/SHA-512-t == hashlib on %d inputs, RFC 1320 MD4 suite, SHA-0(abc), NIST bit-oriented examples, resumption" % n) + note
