"""Reference SP 800-38A modes, parameterised by single-block functions E/D on bytes.  Imports nothing from crysp."""


def xor(a, b):
    return bytes(x ^ y for x, y in zip(a, b))


def ecb_enc(E, B, P):
    assert len(P) % B == 0
    return b"".join(E(P[i:i + B]) for i in range(0, len(P), B))


def ecb_dec(D, B, C):
    return b"".join(D(C[i:i + B]) for i in range(0, len(C), B))


def cbc_enc(E, B, iv, P):
    """-> IV || C1 || ... || Cn"""
    assert len(P) % B == 0 and len(iv) == B
    out, prev = [iv], iv
    for i in range(0, len(P), B):
        prev = E(xor(P[i:i + B], prev))
        out.append(prev)
    return b"".join(out)


def cbc_dec(D, B, C):
    """C includes the IV"""
    out = []
    for i in range(B, len(C), B):
        out.append(xor(D(C[i:i + B]), C[i - B:i]))
    return b"".join(out)


def ctr(E, B, nonce, count, M):
    """counter block = nonce || big-endian counter of len(count) bytes, incremented modulo 2^(8*len(count))"""
    h = len(count)
    c = int.from_bytes(count, "big")
    out = []
    for i in range(0, len(M), B):
        ks = E(nonce + (c % (1 << (8 * h))).to_bytes(h, "big"))
        out.append(xor(M[i:i + B], ks))
        c += 1
    return b"".join(out)


def selftest():
    from . import aes
    h = bytes.fromhex
    K = h("2b7e151628aed2a6abf7158809cf4f3c")
    P = h("6bc1bee22e409f96e93d7e117393172aae2d8a571e03ac9c9eb76fac45af8e5130c81c46a35ce411e5fbc1191a0a52eff69f2445df4f9b17ad2b417be66c3710")
    E = lambda b: aes.enc(K, b)
    D = lambda b: aes.dec(K, b)
    ecb = h("3ad77bb40d7a3660a89ecaf32466ef97f5d3d58503b9699de785895a96fdbaaf43b1cd7f598ece23881b00e3ed0306887b0c785e27e8ad3f8223207104725dd4")
    cbc = h("7649abac8119b246cee98e9b12e9197d5086cb9b507219ee95db113a917678b273bed6b8e3c1743b7116e69e222295163ff1caa1681fac09120eca307586e1a7")
    ctr_ = h("874d6191b620e3261bef6864990db6ce9806f66b7970fdff8617187bb9fffdff5ae4df3edbd5d35e5b4f09020db03eab1e031dda2fbe03d1792170a0f3009cee")
    iv = h("000102030405060708090a0b0c0d0e0f")
    assert ecb_enc(E, 16, P) == ecb and ecb_dec(D, 16, ecb) == P
    assert cbc_enc(E, 16, iv, P) == iv + cbc and cbc_dec(D, 16, iv + cbc) == P
    c0 = h("f0f1f2f3f4f5f6f7f8f9fafbfcfdfeff")
    assert ctr(E, 16, c0[:8], c0[8:], P) == ctr_ and ctr(E, 16, c0[:8], c0[8:], ctr_) == P
    return "SP 800-38A F.1.1 (ECB), F.2.1 (CBC), F.5.1 (CTR) with the reference AES-128"


KAT = {
    "key": "2b7e151628aed2a6abf7158809cf4f3c",
    "plain": "6bc1bee22e409f96e93d7e117393172aae2d8a571e03ac9c9eb76fac45af8e5130c81c46a35ce411e5fbc1191a0a52eff69f2445df4f9b17ad2b417be66c3710",
    "ecb": "3ad77bb40d7a3660a89ecaf32466ef97f5d3d58503b9699de785895a96fdbaaf43b1cd7f598ece23881b00e3ed0306887b0c785e27e8ad3f8223207104725dd4",
    "cbc_iv": "000102030405060708090a0b0c0d0e0f",
    "cbc": "7649abac8119b246cee98e9b12e9197d5086cb9b507219ee95db113a917678b273bed6b8e3c1743b7116e69e222295163ff1caa1681fac09120eca307586e1a7",
    "ctr_iv": "f0f1f2f3f4f5f6f7f8f9fafbfcfdfeff",
    "ctr": "874d6191b620e3261bef6864990db6ce9806f66b7970fdff8617187bb9fffdff5ae4df3edbd5d35e5b4f09020db03eab1e031dda2fbe03d1792170a0f3009cee",
}
