"""Reference padding schemes on bit strings.  A message is (M bytes, L bits): its first L bits in
stream order (bit i = bit 7-(i%8) of byte i//8).  Returns the padded byte string (whole blocks).
Imports nothing from crysp."""


def msgbits(M, L=None):
    """-> (integer whose L-bit big-endian expansion is the bit string, L)"""
    if L is None:
        L = 8 * len(M)
    nb = (L + 7) // 8
    v = int.from_bytes(M[:nb], "big") >> (8 * nb - L) if nb else 0
    return v, L


def tobytes(v, nbits):
    assert nbits % 8 == 0
    return v.to_bytes(nbits // 8, "big")


def truncated(M, L=None):
    """M[0:L] as bytes, last partial byte zero-filled"""
    v, L = msgbits(M, L)
    fill = (-L) % 8
    return tobytes(v << fill, L + fill)


def pad(scheme, B, M, L=None, w=None):
    """B = block size in bits; w = word size for MD/SHA; scheme 'blake' takes B = digest size"""
    v, L = msgbits(M, L)
    if scheme == "nopadding":
        fill = (-L) % 8
        return tobytes(v << fill, L + fill)
    if scheme == "null":
        q = (-L) % B
        return tobytes(v << q, L + q)
    if scheme == "bit":
        q = B - L % B
        return tobytes(((v << 1) | 1) << (q - 1), L + q)
    if scheme in ("pkcs7", "x923"):
        assert L % 8 == 0 and B % 8 == 0
        bl = B // 8
        q = bl - (L // 8) % bl
        tail = bytes([q]) * q if scheme == "pkcs7" else b"\0" * (q - 1) + bytes([q])
        return tobytes(v, L) + tail
    if scheme in ("md", "sha"):
        cs = 2 * w
        N = (B - 1 - cs - L) % B
        body = tobytes(((v << 1) | 1) << N, L + 1 + N)
        return body + (L % (1 << cs)).to_bytes(cs // 8, "little" if scheme == "md" else "big")
    if scheme == "blake":
        h = B
        w = 64 if h > 256 else 32
        B = 1024 if h > 256 else 512
        cs = 2 * w
        N = (B - 2 - cs - L) % B
        bit = 1 if h in (256, 512) else 0
        body = tobytes(((((v << 1) | 1) << N) << 1) | bit, L + 2 + N)
        return body + (L % (1 << cs)).to_bytes(cs // 8, "big")
    raise ValueError(scheme)


def blocksize(scheme, B):
    if scheme == "blake":
        return 1024 if B > 256 else 512
    return B


def valid_bytepad(scheme, X, bl):
    """(valid, unpadded) for PKCS#7 / X9.23 on a whole number of blocks"""
    if len(X) == 0 or len(X) % bl:
        return False, None
    q = X[-1]
    if not 1 <= q <= bl:
        return False, None
    if scheme == "pkcs7":
        ok = X[-q:] == bytes([q]) * q
    else:
        ok = X[-q:-1] == b"\0" * (q - 1)
    return ok, X[:-q] if ok else None


def selftest():
    # RFC 1321 / FIPS 180-4 examples
    assert pad("sha", 512, b"abc", w=32) == b"abc\x80" + b"\0" * 52 + (24).to_bytes(8, "big")
    assert pad("md", 512, b"abc", w=32) == b"abc\x80" + b"\0" * 52 + (24).to_bytes(8, "little")
    assert len(pad("sha", 512, b"a" * 55, w=32)) == 64 and len(pad("sha", 512, b"a" * 56, w=32)) == 128
    assert len(pad("sha", 1024, b"a" * 111, w=64)) == 128 and len(pad("sha", 1024, b"a" * 112, w=64)) == 256
    assert pad("pkcs7", 64, b"abc") == b"abc\x05\x05\x05\x05\x05" and pad("pkcs7", 64, b"12345678")[8:] == b"\x08" * 8
    assert pad("x923", 64, b"abc") == b"abc\0\0\0\0\x05"
    assert pad("bit", 64, b"abc") == b"abc\x80\0\0\0\0" and pad("bit", 64, b"\xff", 3) == b"\xf0" + b"\0" * 7
    assert pad("null", 64, b"abc") == b"abc\0\0\0\0\0" and pad("null", 64, b"12345678") == b"12345678"
    # BLAKE-256 of a one-byte message: 0x00 | 0x80 ... 0x01 | len=8   (submission, section 2.1.3 / test vector)
    assert pad("blake", 256, b"\0") == b"\0\x80" + b"\0" * 53 + b"\x01" + (8).to_bytes(8, "big")
    assert pad("blake", 224, b"\0")[55] == 0 and len(pad("blake", 512, b"\0")) == 128
    # 447-bit boundary: 55 bytes -> marker and final 1 share the byte 0x81
    assert pad("blake", 256, b"a" * 55)[55] == 0x81 and len(pad("blake", 256, b"a" * 56)) == 128
    assert truncated(b"\xff\xff", 11) == b"\xff\xe0"
    return "padding references reproduce the RFC 1321 / FIPS 180-4 / PKCS#7 / X9.23 / ISO 7816-4 / BLAKE examples"
