"""Reference Serpent (AES submission, bitslice formulation; byte strings little-endian, i.e. byte 0 is the
least significant byte of word 0 - the order in which tests/test_serpent.py feeds the NESSIE vectors).
A key of n < 256 bits is extended with one 1 bit at position n and zeros above.  Imports nothing from crysp."""
M32=0xffffffff
SB=[[3,8,15,1,10,6,5,11,14,13,4,2,7,0,9,12],[15,12,2,7,9,0,5,10,1,11,14,8,6,13,3,4],
    [8,6,7,9,3,12,10,15,13,1,14,4,0,11,5,2],[0,15,11,8,12,9,6,3,13,1,2,4,10,7,5,14],
    [1,15,8,3,12,0,11,6,2,5,4,10,9,14,7,13],[15,5,2,11,4,10,9,12,0,3,14,8,13,6,7,1],
    [7,2,12,5,8,4,6,11,14,9,1,15,13,3,10,0],[1,13,15,0,14,8,2,11,7,4,12,10,9,3,5,6]]
SI=[[s.index(i) for i in range(16)] for s in SB]
def rol(x,n): return ((x<<n)|(x>>(32-n)))&M32
def ror(x,n): return ((x>>n)|(x<<(32-n)))&M32
def sbox(box,X):
    Y=[0,0,0,0]
    for j in range(32):
        v=sum(((X[k]>>j)&1)<<k for k in range(4))
        o=box[v]
        for k in range(4): Y[k]|=((o>>k)&1)<<j
    return Y
def LT(X):
    x0,x1,x2,x3=X
    x0=rol(x0,13); x2=rol(x2,3); x1^=x0^x2; x3^=x2^((x0<<3)&M32)
    x1=rol(x1,1); x3=rol(x3,7); x0^=x1^x3; x2^=x3^((x1<<7)&M32)
    x0=rol(x0,5); x2=rol(x2,22); return [x0,x1,x2,x3]
def LTinv(X):
    x0,x1,x2,x3=X
    x2=ror(x2,22); x0=ror(x0,5); x2^=x3^((x1<<7)&M32); x0^=x1^x3
    x3=ror(x3,7); x1=ror(x1,1); x3^=x2^((x0<<3)&M32); x1^=x0^x2
    x2=ror(x2,3); x0=ror(x0,13); return [x0,x1,x2,x3]
def keys(kint,nbits):
    if nbits<256: kint|=1<<nbits
    w=[(kint>>(32*i))&M32 for i in range(8)]
    for i in range(132):
        w.append(rol(w[-8]^w[-5]^w[-3]^w[-1]^0x9e3779b9^i,11))
    w=w[8:]
    return [sbox(SB[(3-i)%8],w[4*i:4*i+4]) for i in range(33)]
def enc(key,pt):
    K=keys(int.from_bytes(key,'little'),8*len(key))
    B=[int.from_bytes(pt[4*i:4*i+4],'little') for i in range(4)]
    for i in range(31): B=LT(sbox(SB[i%8],[a^b for a,b in zip(B,K[i])]))
    B=[a^b for a,b in zip(sbox(SB[7],[a^b for a,b in zip(B,K[31])]),K[32])]
    return b''.join(x.to_bytes(4,'little') for x in B)
def dec(key,ct):
    K=keys(int.from_bytes(key,'little'),8*len(key))
    B=[int.from_bytes(ct[4*i:4*i+4],'little') for i in range(4)]
    B=[a^b for a,b in zip(sbox(SI[7],[a^b for a,b in zip(B,K[32])]),K[31])]
    for i in range(30,-1,-1): B=[a^b for a,b in zip(sbox(SI[i%8],LTinv(B)),K[i])]
    return b''.join(x.to_bytes(4,'little') for x in B)


def enc_bits(kint, nbits, pt):
    """key given as an integer of nbits bits (bit 0 = LSB)"""
    K = keys(kint, nbits)
    B = [int.from_bytes(pt[4 * i:4 * i + 4], 'little') for i in range(4)]
    for i in range(31):
        B = LT(sbox(SB[i % 8], [a ^ b for a, b in zip(B, K[i])]))
    B = [a ^ b for a, b in zip(sbox(SB[7], [a ^ b for a, b in zip(B, K[31])]), K[32])]
    return b''.join(x.to_bytes(4, 'little') for x in B)


def dec_bits(kint, nbits, ct):
    K = keys(kint, nbits)
    B = [int.from_bytes(ct[4 * i:4 * i + 4], 'little') for i in range(4)]
    B = [a ^ b for a, b in zip(sbox(SI[7], [a ^ b for a, b in zip(B, K[32])]), K[31])]
    for i in range(30, -1, -1):
        B = [a ^ b for a, b in zip(sbox(SI[i % 8], LTinv(B)), K[i])]
    return b''.join(x.to_bytes(4, 'little') for x in B)


def selftest():
    h = bytes.fromhex
    # NESSIE set 1 vectors 0 and 1, set 3 vector (as quoted in tests/test_serpent.py: byte strings as printed)
    assert enc(h("80" + "00" * 31), bytes(16)).hex().upper() == "A223AA1288463C0E2BE38EBD825616C0"
    assert enc(h("40" + "00" * 31), bytes(16)).hex().upper() == "EAE1D405570174DF7DF2F9966D509159"
    assert enc(h("11" * 32), h("11" * 16)).hex().upper() == "A482EAA5D5771F2FDB2EA1A5F141B9E2"
    for s in SB:
        assert sorted(s) == list(range(16))
    import random
    rnd = random.Random(4)
    for _ in range(10):
        X = [rnd.getrandbits(32) for _ in range(4)]
        assert LTinv(LT(X)) == X and LT(LTinv(X)) == X
        k = bytes(rnd.randrange(256) for _ in range(rnd.choice([1, 16, 24, 31, 32])))
        b = bytes(rnd.randrange(256) for _ in range(16))
        assert dec(k, enc(k, b)) == b
    return "Serpent NESSIE vectors (3), S-box bijections, LT/LTinv and enc/dec inversion"
