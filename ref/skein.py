"""Reference UBI chaining and Skein 1.3 (hash, MAC, all configuration stages, counter-mode output, tree hashing)
over the reference Threefish.  Written from the Skein 1.3 specification, sections 3.4-3.6.  An absent or empty key
skips the key stage (3.5.3: K' = 0^Nb).  Imports nothing from crysp."""
from .threefish import tf_enc
TYPES={'key':0,'cfg':4,'prs':8,'PK':12,'kdf':16,'non':20,'msg':48,'out':63}
def ubi(G,M,typ,bitlen=None,pos0=0,level=0):
    nb=len(G)
    if bitlen is None: bitlen=8*len(M)
    B=0
    nby=(bitlen+7)//8
    M=bytearray(M[:nby])
    if bitlen%8:
        B=1; k=bitlen%8
        M[-1]=(M[-1]&((0xff<<(8-k))&0xff))|(1<<(7-k))
    M=bytes(M)
    n=len(M)
    nblk=max(1,(n+nb-1)//nb)
    H=G
    for i in range(nblk):
        blk=M[i*nb:(i+1)*nb]
        pos=pos0+min(n,(i+1)*nb)
        first=1 if i==0 else 0; final=1 if i==nblk-1 else 0
        T=pos|(level<<112)|((B if final else 0)<<119)|(TYPES[typ]<<120)|(first<<126)|(final<<127)
        blk=blk.ljust(nb,b'\0')
        X=tf_enc(H,T.to_bytes(16,'little'),blk)
        H=bytes(a^b for a,b in zip(X,blk))
    return H
def skein(Nb,No,M,bitlen=None,key=None,prs=None,PK=None,kdf=None,nonce=None,Yl=0,Yf=0,Ym=0):
    nb=Nb//8
    G=bytes(nb)
    if key: G=ubi(G,key,'key')
    C=b'SHA3'+(1).to_bytes(2,'little')+bytes(2)+No.to_bytes(8,'little')+bytes([Yl,Yf,Ym])+bytes(13)
    G=ubi(G,C,'cfg')
    for v,t in ((prs,'prs'),(PK,'PK'),(kdf,'kdf'),(nonce,'non')):
        if v: G=ubi(G,v,t)
    if Yl==Yf==Ym==0:
        G=ubi(G,M,'msg',bitlen)
    else:
        G0=G
        nl=nb<<Yl; nn=nb<<Yf
        leaves=[M[i:i+nl] for i in range(0,len(M),nl)] or [b'']
        Ml=b''.join(ubi(G0,m,'msg',pos0=i*nl,level=1) for i,m in enumerate(leaves))
        l=1
        while len(Ml)>nb:
            l+=1
            if l==Ym:
                Ml=ubi(G0,Ml,'msg',level=l); break
            nodes=[Ml[i:i+nn] for i in range(0,len(Ml),nn)]
            Ml=b''.join(ubi(G0,m,'msg',pos0=i*nn,level=l) for i,m in enumerate(nodes))
        G=Ml
    out=b''; n=0; nby=(No+7)//8
    while len(out)<nby:
        out+=ubi(G,n.to_bytes(8,'little'),'out'); n+=1
    return out[:nby]


def selftest():
    h = bytes.fromhex
    V = [(256, 256, "FF", "0B98DCD198EA0E50A7A244C444E25C23DA30C10FC9A1F270A6637F1F34E67ED2"),
         (256, 256, "", "C8877087DA56E072870DAA843F176E9453115929094C3A40C463A196C29BF7BA"),
         (256, 256, "FFFEFDFCFBFAF9F8F7F6F5F4F3F2F1F0EFEEEDECEBEAE9E8E7E6E5E4E3E2E1E0", "8D0FA4EF777FD759DFD4044E6F6A5AC3C774AEC943DCFC07927B723B5DBF408B"),
         (512, 512, "FF", "71B7BCE6FE6452227B9CED6014249E5BF9A9754C3AD618CCC4E0AAE16B316CC8CA698D864307ED3E80B6EF1570812AC5272DC409B5A012DF2A579102F340617A"),
         (512, 512, "FFFEFDFCFBFAF9F8F7F6F5F4F3F2F1F0EFEEEDECEBEAE9E8E7E6E5E4E3E2E1E0DFDEDDDCDBDAD9D8D7D6D5D4D3D2D1D0CFCECDCCCBCAC9C8C7C6C5C4C3C2C1C0",
          "45863BA3BE0C4DFC27E75D358496F4AC9A736A505D9313B42B2F5EADA79FC17F63861E947AFB1D056AA199575AD3F8C9A3CC1780B5E5FA4CAE050E989876625B"),
         (1024, 1024, "FF", "E62C05802EA0152407CDD8787FDA9E35703DE862A4FBC119CFF8590AFE79250BCCC8B3FAF1BD2422AB5C0D263FB2F8AFB3F796F048000381531B6F00D85161BC"
                            "0FFF4BEF2486B1EBCD3773FABF50AD4AD5639AF9040E3F29C6C931301BF79832E9DA09857E831E82EF8B4691C235656515D437D2BDA33BCEC001C67FFDE15BA8")]
    for Nb, No, m, d in V:
        assert skein(Nb, No, h(m)).hex().upper() == d, (Nb, m)
    assert skein(256, 256, h("00"), bitlen=1).hex().upper() == "52D2B5FFC2966C06BA7BB0CC2BABBC935E99146487FB361A239830D4D688C988"
    assert skein(256, 256, bytes(33), bitlen=257).hex().upper() == "3EAEA996FAD95B6032654D6CA93AC3450BED8C754CD8000460A2876E34E52FA7"
    K = h("CB41F1706CDE09651203C2D0EFBADDF8")
    assert skein(256, 256, b"", key=K).hex().upper() == "886E4EFEFC15F06AA298963971D7A25398FFFE5681C84DB39BD00851F64AE29D"
    K = h("CB41F1706CDE09651203C2D0EFBADDF847A0D315CB2E53FF8BAC41DA0002672E920244C66E02D5F0DAD3E94C42BB65F0D14157DECF4105EF5609D5B0984457C193")
    m = h("D3090C72167517F7C7AD82A70C2FD3F6443F608301591E598EADB195E8357135BA26FEDE2EE187417F816048D00FC235")
    assert skein(256, 256, m, key=K).hex().upper() == "C353A316558EC34F8245DD2F9C2C4961FBC7DECC3B69053C103E4B8AAAF20394"
    M = h("000102010401060108010A010C010E01100112011401160118011A011C011E01200122012401260128012A012C012E01300132013401360138013A013C013E01"
          "400142014401460148014A014C014E01500152015401560158015A015C015E01600162016401660168016A016C016E01700172017401760178017A017C01")
    assert skein(256, 256, M, Yl=2, Yf=2, Ym=2).hex().upper() == "E3CF8FCDD20BFE85D175448007226C20FF22A65DC9DF7588BE305E5CCC3F4941"
    # configuration IVs of the specification, appendix B (Skein-256-128 / -160 / -256)
    import struct
    def iv(Nb, No):
        C = b"SHA3" + (1).to_bytes(2, "little") + bytes(2) + No.to_bytes(8, "little") + bytes(16)
        return ubi(bytes(Nb // 8), C, "cfg")
    assert iv(256, 128) == struct.pack("<QQQQ", 0xE1111906964D7260, 0x883DAAA77C8D811C, 0x10080DF491960F7A, 0xCCF7DDE5B45BC1C2)
    assert iv(256, 160) == struct.pack("<QQQQ", 0x1420231472825E98, 0x2AC4E9A25A77E590, 0xD47A58568838D63E, 0x2DD2E4968586AB7D)
    assert iv(512, 512)[:8] == struct.pack("<Q", 0x4903ADFF749C51CE)
    # independently published digests (not quoted in the repository)
    assert skein(512, 512, b"").hex().upper() == ("BC5B4C50925519C290CC634277AE3D6257212395CBA733BBAD37A4AF0FA06AF4"
                                                  "1FCA7903D06564FEA7A2D3730DBDB80C1F85562DFCC070334EA4D1D9E72CBA7A")
    assert skein(1024, 1024, b"").hex().upper().startswith("0FFF9563BB3279289227AC77D319B6FFF8D7E9F09DA1247B72A0A265CD6D2A62")
    assert skein(512, 256, b"").hex() == "39ccc4554a8b31853b9de7a1fe638a24cce6b35a55f2431009e18780335d2621"
    assert skein(512, 512, b"The quick brown fox jumps over the lazy dog").hex().startswith("94c2ae036dba8783d0b3f7d6cc111ff810702f5c77707999")
    return "Skein 1.3 appendix vectors: 6 hash, 2 bit-length, 2 MAC, 1 tree, 3 configuration IVs; 4 independently published digests"
