# throw-away feasibility prototype: Threefish + UBI + Skein 1.3 (ints only)
M64=(1<<64)-1
R={4:((14,16),(52,57),(23,40),(5,37),(25,33),(46,12),(58,22),(32,32)),
   8:((46,36,19,37),(33,27,14,42),(17,49,36,39),(44,9,54,56),(39,30,34,24),(13,50,10,17),(25,29,39,43),(8,35,56,22)),
   16:((24,13,8,47,8,17,22,37),(38,19,10,55,49,18,23,52),(33,4,51,13,34,41,59,17),(5,20,48,41,47,28,16,25),
       (41,9,37,31,12,47,44,30),(16,34,56,51,4,53,42,41),(31,44,47,46,19,42,44,25),(9,48,35,52,23,31,37,20))}
PI={4:(0,3,2,1),8:(2,1,4,7,6,5,0,3),16:(0,9,2,13,6,11,4,15,10,7,12,3,14,5,8,1)}
def rol(x,n): return ((x<<n)|(x>>(64-n)))&M64
def tf_enc(key,tweak,pt):
    nw=len(key)//8
    k=[int.from_bytes(key[8*i:8*i+8],'little') for i in range(nw)]
    kn=0x1BD11BDAA9FC1A22
    for x in k: kn^=x
    k.append(kn)
    t=[int.from_bytes(tweak[0:8],'little'),int.from_bytes(tweak[8:16],'little')]; t.append(t[0]^t[1])
    v=[int.from_bytes(pt[8*i:8*i+8],'little') for i in range(nw)]
    nr=72 if nw<16 else 80
    def sub(s):
        ks=[k[(s+i)%(nw+1)] for i in range(nw)]
        ks[nw-3]=(ks[nw-3]+t[s%3])&M64; ks[nw-2]=(ks[nw-2]+t[(s+1)%3])&M64; ks[nw-1]=(ks[nw-1]+s)&M64
        return ks
    for d in range(nr):
        if d%4==0:
            ks=sub(d//4); v=[(a+b)&M64 for a,b in zip(v,ks)]
        f=[0]*nw
        for j in range(nw//2):
            x0,x1=v[2*j],v[2*j+1]
            y0=(x0+x1)&M64; y1=rol(x1,R[nw][d%8][j])^y0
            f[2*j],f[2*j+1]=y0,y1
        v=[f[PI[nw][i]] for i in range(nw)]
    ks=sub(nr//4); v=[(a+b)&M64 for a,b in zip(v,ks)]
    return b''.join(x.to_bytes(8,'little') for x in v)
TYPES={'key':0,'cfg':4,'prs':8,'PK':12,'kdf':16,'non':20,'msg':48,'out':63}
def ubi(G,M,typ,bitlen=None,pos0=0,level=0):
    nb=len(G)
    if bitlen is None: bitlen=8*len(M)
    B=0
    nby=(bitlen+7)//8
    M=bytearray(M[:nby])
    if bitlen%8:
        B=1; k=bitlen%8
        M[-1]=(M[-1]&((0xff<<(8-k))&0xff))|(1<<(7-k))
    M=bytes(M)
    n=len(M)
    nblk=max(1,(n+nb-1)//nb)
    H=G
    for i in range(nblk):
        blk=M[i*nb:(i+1)*nb]
        pos=pos0+min(n,(i+1)*nb)
        first=1 if i==0 else 0; final=1 if i==nblk-1 else 0
        T=pos|(level<<112)|((B if final else 0)<<119)|(TYPES[typ]<<120)|(first<<126)|(final<<127)
        blk=blk.ljust(nb,b'\0')
        X=tf_enc(H,T.to_bytes(16,'little'),blk)
        H=bytes(a^b for a,b in zip(X,blk))
    return H
def skein(Nb,No,M,bitlen=None,key=None,prs=None,PK=None,kdf=None,nonce=None,Yl=0,Yf=0,Ym=0):
    nb=Nb//8
    G=bytes(nb)
    if key: G=ubi(G,key,'key')
    C=b'SHA3'+(1).to_bytes(2,'little')+bytes(2)+No.to_bytes(8,'little')+bytes([Yl,Yf,Ym])+bytes(13)
    G=ubi(G,C,'cfg')
    for v,t in ((prs,'prs'),(PK,'PK'),(kdf,'kdf'),(nonce,'non')):
        if v: G=ubi(G,v,t)
    if Yl==Yf==Ym==0:
        G=ubi(G,M,'msg',bitlen)
    else:
        G0=G
        nl=nb<<Yl; nn=nb<<Yf
        leaves=[M[i:i+nl] for i in range(0,len(M),nl)] or [b'']
        Ml=b''.join(ubi(G0,m,'msg',pos0=i*nl,level=1) for i,m in enumerate(leaves))
        l=1
        while len(Ml)>nb:
            l+=1
            if l==Ym:
                Ml=ubi(G0,Ml,'msg',level=l); break
            nodes=[Ml[i:i+nn] for i in range(0,len(Ml),nn)]
            Ml=b''.join(ubi(G0,m,'msg',pos0=i*nn,level=l) for i,m in enumerate(nodes))
        G=Ml
    out=b''; n=0; nby=(No+7)//8
    while len(out)<nby:
        out+=ubi(G,n.to_bytes(8,'little'),'out'); n+=1
    return out[:nby]
if __name__=='__main__':
    import sys,os; sys.path.insert(0,'/repo')
    from crysp.skein import Skein
    h=bytes.fromhex
    print(skein(256,256,h("FF")).hex().upper()=="0B98DCD198EA0E50A7A244C444E25C23DA30C10FC9A1F270A6637F1F34E67ED2")
    print(skein(1024,1024,h("FF")).hex().upper()[:32]=="E62C05802EA0152407CDD8787FDA9E35")
    print(skein(256,256,h("00"),bitlen=1).hex().upper()=="52D2B5FFC2966C06BA7BB0CC2BABBC935E99146487FB361A239830D4D688C988")
    print(skein(256,256,bytes(33),bitlen=257).hex().upper()=="3EAEA996FAD95B6032654D6CA93AC3450BED8C754CD8000460A2876E34E52FA7")
    K=h("CB41F1706CDE09651203C2D0EFBADDF847A0D315CB2E53FF8BAC41DA0002672E920244C66E02D5F0DAD3E94C42BB65F0D14157DECF4105EF5609D5B0984457C193")
    m=h("D3090C72167517F7C7AD82A70C2FD3F6443F608301591E598EADB195E8357135BA26FEDE2EE187417F816048D00FC235")
    print(skein(256,256,m,key=K).hex().upper()=="C353A316558EC34F8245DD2F9C2C4961FBC7DECC3B69053C103E4B8AAAF20394")
    M=h("000102010401060108010A010C010E01100112011401160118011A011C011E01200122012401260128012A012C012E01300132013401360138013A013C013E01400142014401460148014A014C014E01500152015401560158015A015C015E01600162016401660168016A016C016E01700172017401760178017A017C01")
    print(skein(256,256,M,Yl=2,Yf=2,Ym=2).hex().upper()=="E3CF8FCDD20BFE85D175448007226C20FF22A65DC9DF7588BE305E5CCC3F4941")
    bad=0
    for Nb in (256,512,1024):
        for n in (0,1,31,32,33,64,100,200,300):
            M=os.urandom(n)
            for kw in ({},{'key':b'kk'},{'prs':b'p','nonce':b'n'*70},{'Yl':1,'Yf':1,'Ym':2},{'Yl':1,'Yf':2,'Ym':3},{'Yl':1,'Yf':1,'Ym':4}):
                if n==0 and 'Yl' in kw: continue
                a=Skein(Nb,Nb,**kw)(M); b=skein(Nb,Nb,M,**kw)
                if a!=b: bad+=1; print('diff',Nb,n,kw)
            for L in (8*n-3,8*n-7):
                if L>0 and Skein(Nb,Nb)(M,bitlen=L)!=skein(Nb,Nb,M,bitlen=L): bad+=1; print('diff bit',Nb,n,L)
    print('bad',bad)
    print('No>Nb first block equal?', Skein(256,512)(b'ab')[:32]==skein(256,512,b'ab')[:32], 'second?', Skein(256,512)(b'ab')[32:]==skein(256,512,b'ab')[32:])
