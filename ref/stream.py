"""Reference Salsa20 (core, expansion, stream; any even round count), original ChaCha (64-bit nonce, 64-bit block
counter; any even round count) and RC4, on plain ints/bytes.  Imports nothing from crysp."""
M32 = 0xffffffff


def rol(x, n):
    return ((x << n) | (x >> (32 - n))) & M32


def salsa_core(words, rounds=20):
    """words: 16 ints; returns 16 ints = x + doubleround^(rounds/2)(x)"""
    x = list(words)

    def qr(a, b, c, d):
        x[b] ^= rol((x[a] + x[d]) & M32, 7)
        x[c] ^= rol((x[b] + x[a]) & M32, 9)
        x[d] ^= rol((x[c] + x[b]) & M32, 13)
        x[a] ^= rol((x[d] + x[c]) & M32, 18)
    for _ in range(rounds // 2):
        qr(0, 4, 8, 12); qr(5, 9, 13, 1); qr(10, 14, 2, 6); qr(15, 3, 7, 11)
        qr(0, 1, 2, 3); qr(5, 6, 7, 4); qr(10, 11, 8, 9); qr(15, 12, 13, 14)
    return [(a + b) & M32 for a, b in zip(x, words)]


def salsa_hash(block64, rounds=20):
    w = [int.from_bytes(block64[4 * i:4 * i + 4], "little") for i in range(16)]
    return b"".join(v.to_bytes(4, "little") for v in salsa_core(w, rounds))


def _le_words(b):
    return [int.from_bytes(b[4 * i:4 * i + 4], "little") for i in range(len(b) // 4)]


def salsa_block(key, nonce, counter, rounds=20):
    if len(key) == 32:
        c = _le_words(b"expand 32-byte k")
        k0, k1 = _le_words(key[:16]), _le_words(key[16:])
    else:
        c = _le_words(b"expand 16-byte k")
        k0 = k1 = _le_words(key)
    n = _le_words(nonce)
    w = [c[0]] + k0 + [c[1]] + n + [counter & M32, (counter >> 32) & M32] + [c[2]] + k1 + [c[3]]
    return b"".join(v.to_bytes(4, "little") for v in salsa_core(w, rounds))


def chacha_block(key, nonce, counter, rounds=20):
    if len(key) == 32:
        c = _le_words(b"expand 32-byte k")
        k = _le_words(key)
    else:
        c = _le_words(b"expand 16-byte k")
        k = _le_words(key) * 2
    w = c + k + [counter & M32, (counter >> 32) & M32] + _le_words(nonce)
    x = list(w)

    def qr(a, b, c_, d):
        x[a] = (x[a] + x[b]) & M32; x[d] = rol(x[d] ^ x[a], 16)
        x[c_] = (x[c_] + x[d]) & M32; x[b] = rol(x[b] ^ x[c_], 12)
        x[a] = (x[a] + x[b]) & M32; x[d] = rol(x[d] ^ x[a], 8)
        x[c_] = (x[c_] + x[d]) & M32; x[b] = rol(x[b] ^ x[c_], 7)
    for _ in range(rounds // 2):
        qr(0, 4, 8, 12); qr(1, 5, 9, 13); qr(2, 6, 10, 14); qr(3, 7, 11, 15)
        qr(0, 5, 10, 15); qr(1, 6, 11, 12); qr(2, 7, 8, 13); qr(3, 4, 9, 14)
    return b"".join(((a + b) & M32).to_bytes(4, "little") for a, b in zip(x, w))


def keystream(kind, key, nonce, rounds, nbytes, start_block=0):
    f = salsa_block if kind == "salsa20" else chacha_block
    out = b""
    i = start_block
    while len(out) < nbytes:
        out += f(key, nonce, i % (1 << 64), rounds)
        i += 1
    return out[:nbytes]


def rc4_keystream(key, n):
    S = list(range(256))
    j = 0
    for i in range(256):
        j = (j + S[i] + key[i % len(key)]) & 0xff
        S[i], S[j] = S[j], S[i]
    i = j = 0
    out = bytearray()
    for _ in range(n):
        i = (i + 1) & 0xff
        j = (j + S[i]) & 0xff
        S[i], S[j] = S[j], S[i]
        out.append(S[(S[i] + S[j]) & 0xff])
    return bytes(out)


def selftest():
    import subprocess, shutil, random
    h = bytes.fromhex
    # Salsa20 specification, section 8 (Salsa20 hash function) example 2 and the all-zero example
    assert salsa_hash(bytes(64)) == bytes(64)
    x = bytes([211, 159, 13, 115, 76, 55, 82, 183, 3, 117, 222, 37, 191, 187, 234, 136, 49, 237, 179, 48, 1, 106, 178, 219, 175, 199, 166, 48, 86, 16, 179, 207,
               31, 240, 32, 63, 15, 83, 93, 161, 116, 147, 48, 113, 238, 55, 204, 36, 79, 201, 235, 79, 3, 81, 156, 47, 203, 26, 244, 243, 88, 118, 104, 54])
    y = bytes([109, 42, 178, 168, 156, 240, 248, 238, 168, 196, 190, 203, 26, 110, 170, 154, 29, 29, 150, 26, 150, 30, 235, 249, 190, 163, 251, 48, 69, 144, 51, 57,
               118, 40, 152, 157, 180, 57, 27, 94, 107, 42, 236, 35, 27, 111, 114, 114, 219, 236, 232, 135, 111, 155, 110, 18, 24, 232, 95, 158, 179, 19, 48, 202])
    assert salsa_hash(x) == y
    # Salsa20 expansion example (section 9): k0 = 1..16, k1 = 201..216, n = 101..116 (nonce||counter)
    k0, k1, n = bytes(range(1, 17)), bytes(range(201, 217)), bytes(range(101, 117))
    exp = bytes([69, 37, 68, 39, 41, 15, 107, 193, 255, 139, 122, 6, 170, 233, 217, 98, 89, 144, 182, 106, 21, 51, 200, 65, 239, 49, 222, 34, 215, 114, 40, 126,
                 104, 197, 7, 225, 197, 153, 31, 2, 102, 78, 76, 176, 84, 245, 246, 184, 177, 160, 133, 130, 6, 72, 149, 119, 192, 195, 132, 236, 234, 103, 246, 74])
    assert salsa_block(k0 + k1, n[:8], int.from_bytes(n[8:], "little")) == exp
    # RFC 6229 RC4 vectors (key 0102030405, first 16 bytes; key 01..10)
    assert rc4_keystream(h("0102030405"), 16) == h("b2396305f03dc027ccc3524a0a1118a8")
    assert rc4_keystream(h("0102030405060708090a0b0c0d0e0f10"), 16) == h("9ac7cc9a609d1ef7b2932899cde41b97")
    # ChaCha20 all-zero key/nonce block 0 (original ChaCha20, first 16 bytes)
    assert chacha_block(bytes(32), bytes(8), 0, 20)[:16] == h("76b8e0ada0f13d90405d6ae55386bd28")
    note = "openssl cross-check skipped"
    exe = shutil.which("openssl")
    if exe:
        try:
            rnd = random.Random(8)
            key = bytes(rnd.randrange(256) for _ in range(32)); nonce = bytes(rnd.randrange(256) for _ in range(8))
            ctr = (1 << 32) - 2
            iv = ctr.to_bytes(8, "little") + nonce
            out = subprocess.run([exe, "enc", "-chacha20", "-K", key.hex(), "-iv", iv.hex()], input=bytes(256), capture_output=True, timeout=20)
            if out.returncode == 0 and len(out.stdout) == 256:
                # OpenSSL's 32-bit counter wraps at 2^32, the original ChaCha carries into the next word: compare the first 2 blocks only
                assert out.stdout[:128] == keystream("chacha", key, nonce, 20, 128, ctr)
                note = "ChaCha20 == openssl CLI (counter 2^32-2, 2 blocks)"
        except (OSError, subprocess.TimeoutExpired):
            pass
    return "Salsa20 spec examples (hash, expansion), RFC 6229 RC4, ChaCha20 zero-key block; " + note
