"""Reference Threefish-256/512/1024 (Skein 1.3 specification, section 3.3) on ints; words little-endian,
tweak = 16 bytes (T0 first).  Encrypt and decrypt written separately.  Imports nothing from crysp."""
M64=(1<<64)-1
R={4:((14,16),(52,57),(23,40),(5,37),(25,33),(46,12),(58,22),(32,32)),
   8:((46,36,19,37),(33,27,14,42),(17,49,36,39),(44,9,54,56),(39,30,34,24),(13,50,10,17),(25,29,39,43),(8,35,56,22)),
   16:((24,13,8,47,8,17,22,37),(38,19,10,55,49,18,23,52),(33,4,51,13,34,41,59,17),(5,20,48,41,47,28,16,25),
       (41,9,37,31,12,47,44,30),(16,34,56,51,4,53,42,41),(31,44,47,46,19,42,44,25),(9,48,35,52,23,31,37,20))}
PI={4:(0,3,2,1),8:(2,1,4,7,6,5,0,3),16:(0,9,2,13,6,11,4,15,10,7,12,3,14,5,8,1)}
def rol(x,n): return ((x<<n)|(x>>(64-n)))&M64
def tf_enc(key,tweak,pt):
    nw=len(key)//8
    k=[int.from_bytes(key[8*i:8*i+8],'little') for i in range(nw)]
    kn=0x1BD11BDAA9FC1A22
    for x in k: kn^=x
    k.append(kn)
    t=[int.from_bytes(tweak[0:8],'little'),int.from_bytes(tweak[8:16],'little')]; t.append(t[0]^t[1])
    v=[int.from_bytes(pt[8*i:8*i+8],'little') for i in range(nw)]
    nr=72 if nw<16 else 80
    def sub(s):
        ks=[k[(s+i)%(nw+1)] for i in range(nw)]
        ks[nw-3]=(ks[nw-3]+t[s%3])&M64; ks[nw-2]=(ks[nw-2]+t[(s+1)%3])&M64; ks[nw-1]=(ks[nw-1]+s)&M64
        return ks
    for d in range(nr):
        if d%4==0:
            ks=sub(d//4); v=[(a+b)&M64 for a,b in zip(v,ks)]
        f=[0]*nw
        for j in range(nw//2):
            x0,x1=v[2*j],v[2*j+1]
            y0=(x0+x1)&M64; y1=rol(x1,R[nw][d%8][j])^y0
            f[2*j],f[2*j+1]=y0,y1
        v=[f[PI[nw][i]] for i in range(nw)]
    ks=sub(nr//4); v=[(a+b)&M64 for a,b in zip(v,ks)]
    return b''.join(x.to_bytes(8,'little') for x in v)


def ror(x,n): return ((x>>n)|(x<<(64-n)))&M64
def tf_dec(key,tweak,ct):
    nw=len(key)//8
    k=[int.from_bytes(key[8*i:8*i+8],'little') for i in range(nw)]
    kn=0x1BD11BDAA9FC1A22
    for x in k: kn^=x
    k.append(kn)
    t=[int.from_bytes(tweak[0:8],'little'),int.from_bytes(tweak[8:16],'little')]; t.append(t[0]^t[1])
    v=[int.from_bytes(ct[8*i:8*i+8],'little') for i in range(nw)]
    nr=72 if nw<16 else 80
    def sub(s):
        ks=[k[(s+i)%(nw+1)] for i in range(nw)]
        ks[nw-3]=(ks[nw-3]+t[s%3])&M64; ks[nw-2]=(ks[nw-2]+t[(s+1)%3])&M64; ks[nw-1]=(ks[nw-1]+s)&M64
        return ks
    inv=[0]*nw
    for i,p in enumerate(PI[nw]): inv[p]=i
    ks=sub(nr//4); v=[(a-b)&M64 for a,b in zip(v,ks)]
    for d in range(nr-1,-1,-1):
        f=[v[inv[i]] for i in range(nw)]
        e=[0]*nw
        for j in range(nw//2):
            y0,y1=f[2*j],f[2*j+1]
            x1=ror(y1^y0,R[nw][d%8][j]); x0=(y0-x1)&M64
            e[2*j],e[2*j+1]=x0,x1
        v=e
        if d%4==0:
            ks=sub(d//4); v=[(a-b)&M64 for a,b in zip(v,ks)]
    return b''.join(x.to_bytes(8,'little') for x in v)


def selftest():
    h = bytes.fromhex
    # Skein 1.3 specification, appendix (as quoted in tests/test_threefish.py)
    assert tf_enc(bytes(32), bytes(16), bytes(32)).hex().upper() == "84DA2A1F8BEAEE947066AE3E3103F1AD536DB1F4A1192495116B9F3CE6133FD8"
    k = bytes(range(0x10, 0x30)); t = bytes(range(16)); p = bytes(range(0xff, 0xdf, -1))
    assert tf_enc(k, t, p).hex().upper() == "E0D091FF0EEA8FDFC98192E62ED80AD59D865D08588DF476657056B5955E97DF"
    assert tf_enc(bytes(64), bytes(16), bytes(64)).hex().upper().startswith("B1A2BBC6EF6025BC40EB3822161F36E3")
    assert tf_enc(bytes(128), bytes(16), bytes(128)).hex().upper().startswith("F05C3D0A3D05B304F785DDC7D1E03601")
    import random
    rnd = random.Random(6)
    for n in (32, 64, 128):
        for _ in range(4):
            k = bytes(rnd.randrange(256) for _ in range(n)); t = bytes(rnd.randrange(256) for _ in range(16)); b = bytes(rnd.randrange(256) for _ in range(n))
            assert tf_dec(k, t, tf_enc(k, t, b)) == b and tf_enc(k, t, tf_dec(k, t, b)) == b
    return "Threefish spec vectors (256 zero/nonzero, 512, 1024), enc/dec inversion"
