"""Reference models: TLSH (Oliver, Cheng, Chen: "TLSH - A Locality Sensitive Hash", 2013; Pearson-mapped sliding-window
triplets, quartile coding, length/Q-ratio header) for bucket counts {48,128,256}, window 4..8, checksum length {1,3};
and Nilsimsa 0.2.4 (tran table, 8 trigram classes, threshold coding).  The TLSH Pearson table is a typed constant
(the v_table of the TLSH reference code); the test vectors of tests/test_tlsh.py pin it.  Imports nothing from crysp."""
import math

T = [1, 87, 49, 12, 176, 178, 102, 166, 121, 193, 6, 84, 249, 230, 44, 163,
     14, 197, 213, 181, 161, 85, 218, 80, 64, 239, 24, 226, 236, 142, 38, 200,
     110, 177, 104, 103, 141, 253, 255, 50, 77, 101, 81, 18, 45, 96, 31, 222,
     25, 107, 190, 70, 86, 237, 240, 34, 72, 242, 20, 214, 244, 227, 149, 235,
     97, 234, 57, 22, 60, 250, 82, 175, 208, 5, 127, 199, 111, 62, 135, 248,
     174, 169, 211, 58, 66, 154, 106, 195, 245, 171, 17, 187, 182, 179, 0, 243,
     132, 56, 148, 75, 128, 133, 158, 100, 130, 126, 91, 13, 153, 246, 216, 219,
     119, 68, 223, 78, 83, 88, 201, 99, 122, 11, 92, 32, 136, 114, 52, 10,
     138, 30, 48, 183, 156, 35, 61, 26, 143, 74, 251, 94, 129, 162, 63, 152,
     170, 7, 115, 167, 241, 206, 3, 150, 55, 59, 151, 220, 90, 53, 23, 131,
     125, 173, 15, 238, 79, 95, 89, 16, 105, 137, 225, 224, 217, 160, 37, 123,
     118, 73, 2, 157, 46, 116, 9, 145, 134, 228, 207, 212, 202, 215, 69, 229,
     27, 188, 67, 124, 168, 252, 42, 4, 29, 108, 21, 247, 19, 205, 39, 203,
     233, 40, 186, 147, 198, 192, 155, 33, 164, 191, 98, 204, 165, 180, 117, 76,
     140, 36, 210, 172, 41, 54, 159, 8, 185, 232, 113, 196, 231, 47, 146, 120,
     51, 65, 28, 144, 254, 221, 93, 189, 194, 139, 112, 43, 71, 109, 184, 209]


def pm(salt,a,b,c):
    h=T[salt]; h=T[h^a]; h=T[h^b]; return T[h^c]
TRIP={4:[(2,1,2,3),(3,1,2,4),(5,1,3,4)]}
TRIP[5]=TRIP[4]+[(7,1,3,5),(11,1,2,5),(13,1,4,5)]
TRIP[6]=TRIP[5]+[(17,1,2,6),(19,1,3,6),(23,1,4,6),(29,1,5,6)]
TRIP[7]=TRIP[6]+[(31,1,2,7),(37,1,3,7),(41,1,4,7),(43,1,5,7),(47,1,6,7)]
TRIP[8]=TRIP[7]+[(53,1,2,8),(59,1,3,8),(61,1,4,8),(67,1,5,8),(71,1,6,8),(73,1,7,8)]
def tlsh_model(data,buckets=128,wnd=5,chk=1,force=False):
    n=len(data)
    if n<50 or (not force and n<256): return None
    bk=[0]*256; cs=[0]*chk
    for e in range(wnd-1,n):
        d=lambda k: data[e-k+1]   # d(1)=current byte
        cs[0]=pm(0,d(1),d(2),cs[0])
        for k in range(1,chk): cs[k]=pm(cs[k-1],d(1),d(2),cs[k])
        for salt,i,j,k in TRIP[wnd]: bk[pm(salt,d(i),d(j),d(k))]+=1
    b=bk[:buckets]; s=sorted(b); q=buckets//4
    q1,q2,q3=s[q-1],s[2*q-1],s[3*q-1]
    nz=sum(1 for x in b if x)
    if nz<=buckets//2: return None
    code=bytearray(q)
    for i,x in enumerate(b):
        v=3 if x>q3 else 2 if x>q2 else 1 if x>q1 else 0
        code[i//4]|=v<<(2*(i%4))
    if n<=656: L=math.floor(math.log(n,1.5))
    elif n<=3199: L=math.floor(math.log(n,1.3)-8.72777)
    else: L=math.floor(math.log(n,1.1)-62.5472)
    L&=0xff
    r1=int(q1*100./q3)%16; r2=int(q2*100./q3)%16
    sw=lambda x:((x&15)<<4)|(x>>4)
    return bytes([sw(c) for c in cs]+[sw(L),(r1<<4)|r2])+bytes(code[::-1])
def nilsimsa(data,target=53):
    tran=[0]*256; j=0
    for i in range(256):
        j=(j*target+1)&255; j+=j
        if j>255: j-=255
        k=0
        while k<i:
            if tran[k]==j: j=(j+1)&255; k=0
            k+=1
        tran[i]=j
    t3=lambda a,b,c,n:(((tran[(a+n)&255]^tran[b]*(n+n+1))+tran[c^tran[n]])&255)
    acc=[0]*256; w=[-1]*4; cnt=0
    for ch in data:
        cnt+=1
        if w[1]>-1: acc[t3(ch,w[0],w[1],0)]+=1
        if w[2]>-1: acc[t3(ch,w[0],w[2],1)]+=1; acc[t3(ch,w[1],w[2],2)]+=1
        if w[3]>-1:
            acc[t3(ch,w[0],w[3],3)]+=1; acc[t3(ch,w[1],w[3],4)]+=1; acc[t3(ch,w[2],w[3],5)]+=1
            acc[t3(w[3],w[0],ch,6)]+=1; acc[t3(w[3],w[2],ch,7)]+=1
        w=[ch]+w[:3]
    total=1 if cnt==3 else 4 if cnt==4 else 8*cnt-28 if cnt>4 else 0
    th=total//256; code=[0]*32
    for i in range(256):
        if acc[i]>th: code[i>>3]|=1<<(i&7)
    return bytes(code[::-1])


def header_fields(h, chklen):
    """(checksum bytes, Lvalue, q1_ratio, q2_ratio, code bytes in bucket order) of a serialized digest"""
    sw = lambda x: ((x & 15) << 4) | (x >> 4)
    ck = bytes(sw(x) for x in h[:chklen])
    L = sw(h[chklen])
    qb = h[chklen + 1]
    return ck, L, qb >> 4, qb & 15, bytes(h[chklen + 2:][::-1])


def tlsh_distance(h0, h1, chklen, lvalue=True):
    c0, L0, a0, b0, code0 = header_fields(h0, chklen)
    c1, L1, a1, b1, code1 = header_fields(h1, chklen)

    def dm(x, y, n):
        d = abs(x % n - y % n)
        return min(d, n - d)
    diff = 1 if c0 != c1 else 0
    if lvalue:
        d = dm(L0, L1, 256)
        diff += d if d <= 1 else d * 12
    for x, y in ((a0, a1), (b0, b1)):
        d = dm(x, y, 16)
        diff += d if d <= 1 else (d - 1) * 12
    for x, y in zip(code0, code1):
        for t in range(4):
            d = abs(((x >> (2 * t)) & 3) - ((y >> (2 * t)) & 3))
            diff += 6 if d == 3 else d
    return diff


def selftest():
    assert len(T) == 256 and sorted(T) == list(range(256)) and T[:6] == [1, 87, 49, 12, 176, 178]
    v = [(b"The best documentation is the UNIX source. After all, this is what the system uses for documentation when it decides what to do next! "
          b"The manuals paraphrase the source code, often having been written at different times and by different people than who wrote the code. "
          b"Think of them as guidelines. Sometimes they are more like wishes... Nonetheless, it is all too common to turn to the source and find "
          b"options and behaviors that are not documented in the manual. Sometimes you find options described in the manual that are unimplemented "
          b"and ignored by the source.\n", "1EF02BEF718027B0160B4391212923ED7F1A463D563B1549B86CF62973B197AD2731F8")]
    for m, d in v:
        assert tlsh_model(m).hex().upper() == d
    assert nilsimsa(b"abcdefgh").hex() == "14c8118000000000030800000004042004189020001308014088003280000078"
    assert nilsimsa(b"This is a much more ridiculous test because of 21347597.").hex() == "5d9c6a6b22384bcd524a8d414d82237777433fc1a07a02c3e06985d96ecdf8fb"
    return "TLSH vector of the reference implementation (UNIX source text), Nilsimsa 0.2.4 vectors"
