# throw-away feasibility prototype: TLSH model (paper), and Nilsimsa 0.2.4 model
import math, re, sys
sys.path.insert(0,'/repo')
src=open('/repo/crysp/tlsh.py').read()
# NOTE: in the real reference the Pearson table is typed in; here (prototype only) borrow it
T=eval(re.search(r'PEARSON_T = (\[.*?\])',src,re.S).group(1))
def pm(salt,a,b,c):
    h=T[salt]; h=T[h^a]; h=T[h^b]; return T[h^c]
TRIP={4:[(2,1,2,3),(3,1,2,4),(5,1,3,4)]}
TRIP[5]=TRIP[4]+[(7,1,3,5),(11,1,2,5),(13,1,4,5)]
TRIP[6]=TRIP[5]+[(17,1,2,6),(19,1,3,6),(23,1,4,6),(29,1,5,6)]
TRIP[7]=TRIP[6]+[(31,1,2,7),(37,1,3,7),(41,1,4,7),(43,1,5,7),(47,1,6,7)]
TRIP[8]=TRIP[7]+[(53,1,2,8),(59,1,3,8),(61,1,4,8),(67,1,5,8),(71,1,6,8),(73,1,7,8)]
def tlsh_model(data,buckets=128,wnd=5,chk=1,force=False):
    n=len(data)
    if n<50 or (not force and n<256): return None
    bk=[0]*256; cs=[0]*chk
    for e in range(wnd-1,n):
        d=lambda k: data[e-k+1]   # d(1)=current byte
        cs[0]=pm(0,d(1),d(2),cs[0])
        for k in range(1,chk): cs[k]=pm(cs[k-1],d(1),d(2),cs[k])
        for salt,i,j,k in TRIP[wnd]: bk[pm(salt,d(i),d(j),d(k))]+=1
    b=bk[:buckets]; s=sorted(b); q=buckets//4
    q1,q2,q3=s[q-1],s[2*q-1],s[3*q-1]
    nz=sum(1 for x in b if x)
    if nz<=buckets//2: return None
    code=bytearray(q)
    for i,x in enumerate(b):
        v=3 if x>q3 else 2 if x>q2 else 1 if x>q1 else 0
        code[i//4]|=v<<(2*(i%4))
    if n<=656: L=math.floor(math.log(n,1.5))
    elif n<=3199: L=math.floor(math.log(n,1.3)-8.72777)
    else: L=math.floor(math.log(n,1.1)-62.5472)
    L&=0xff
    r1=int(q1*100./q3)%16; r2=int(q2*100./q3)%16
    sw=lambda x:((x&15)<<4)|(x>>4)
    return bytes([sw(c) for c in cs]+[sw(L),(r1<<4)|r2])+bytes(code[::-1])
def nilsimsa(data,target=53):
    tran=[0]*256; j=0
    for i in range(256):
        j=(j*target+1)&255; j+=j
        if j>255: j-=255
        k=0
        while k<i:
            if tran[k]==j: j=(j+1)&255; k=0
            k+=1
        tran[i]=j
    t3=lambda a,b,c,n:(((tran[(a+n)&255]^tran[b]*(n+n+1))+tran[c^tran[n]])&255)
    acc=[0]*256; w=[-1]*4; cnt=0
    for ch in data:
        cnt+=1
        if w[1]>-1: acc[t3(ch,w[0],w[1],0)]+=1
        if w[2]>-1: acc[t3(ch,w[0],w[2],1)]+=1; acc[t3(ch,w[1],w[2],2)]+=1
        if w[3]>-1:
            acc[t3(ch,w[0],w[3],3)]+=1; acc[t3(ch,w[1],w[3],4)]+=1; acc[t3(ch,w[2],w[3],5)]+=1
            acc[t3(w[3],w[0],ch,6)]+=1; acc[t3(w[3],w[2],ch,7)]+=1
        w=[ch]+w[:3]
    total=1 if cnt==3 else 4 if cnt==4 else 8*cnt-28 if cnt>4 else 0
    th=total//256; code=[0]*32
    for i in range(256):
        if acc[i]>th: code[i>>3]|=1<<(i&7)
    return bytes(code[::-1])
if __name__=='__main__':
    import os, random
    from crysp.tlsh import TLSH
    from crysp.nilsimsa import Nilsimsa
    exec(open('/repo/tests/test_tlsh.py').read().split('@pytest')[0].replace('import pytest',''))
    print([tlsh_model(m)==bytes.fromhex(h.decode()) for m,h in vectors_2])
    bad=0; none=0; tot=0
    rnd=random.Random(1)
    for b in (48,128,256):
        for w in (4,5,6,7,8):
            for c in (1,3):
                for n in (49,50,60,255,256,300,656,657,1000):
                    for alpha in (256,8,3):
                        d=bytes(rnd.randrange(alpha) for _ in range(n))
                        for force in (False,True):
                            tot+=1
                            try: a=TLSH(b,w,c)(d,force)
                            except AttributeError: a=None
                            e=tlsh_model(d,b,w,c,force)
                            if e is None: none+=1
                            if a!=e: bad+=1; print('diff',b,w,c,n,alpha,force)
    print('tlsh bad',bad,'none',none,'of',tot)
    print(nilsimsa(b'abcdefgh').hex()=="14c8118000000000030800000004042004189020001308014088003280000078")
    bad=0
    for t in (53,17,0,1,255,128):
        for n in (0,1,2,3,4,5,50,300):
            d=os.urandom(n)
            if Nilsimsa(t)(d)!=nilsimsa(d,t): bad+=1
    print('nilsimsa bad',bad)
