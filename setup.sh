#!/bin/sh
# offline setup: make sure /venv has hypothesis (it normally does), nothing else is needed.
set -e
cd "$(dirname "$0")"
if ! /venv/bin/python -c "import hypothesis" 2>/dev/null; then
  /venv/bin/pip install --no-index --find-links /opt/veriftools/wheels hypothesis
fi
# atheris is optional (thorough tier only); best effort, never fails the setup
if [ ! -d .deps/atheris ]; then
  /venv/bin/pip install -q --no-index --find-links /opt/veriftools/wheels --target .deps atheris >/dev/null 2>&1 || true
fi
/venv/bin/python -c "import hypothesis, sys; print('hypothesis', hypothesis.__version__)"
./vcheck selftest
