#!/venv/bin/python
"""Regenerate MANIFEST.json from the property modules present in props/ (PROP_META in each)."""
import json, os, sys, importlib
HERE = os.path.dirname(os.path.dirname(os.path.abspath(__file__)))
sys.path[:0] = ["/repo", HERE]

TECH = {
 "C01": ("differential testing against hashlib and a bit-granular reference: exhaustive length / bit-length sweeps + Hypothesis + preset-counter midstates + reused objects",
         "Every byte length 0..2B+9 and every bit length up to 2 blocks for 10 algorithms are enumerated; random multi-block messages, multi-word counters via preset midstates and over-long bit lengths are sampled. Exploration: finds violations, does not prove absence."),
 "C02": ("differential testing against independent reference ciphers (enc and dec written separately): single-bit sweeps, exhaustive GF(2^8) table, Hypothesis, call histories, rejection of undefined sizes",
         "All 65 536 gmul pairs exhaustively; every single-bit block/key/tweak per configuration; random blocks; sizes the algorithms do not define must raise."),
 "C03": ("round-trip (inverse) relations: enumeration of whole component domains + Hypothesis round trips + one-object histories with refused calls, sibling objects and shared key vectors",
         "Component pairs (S-boxes, permutations, linear layers, rotations for all widths <= 11/16, index maps) are enumerated on their whole domain or a basis of it; cipher round trips sampled."),
 "C04": ("differential testing against a reference sponge on bit lists and hashlib: exhaustive small widths (every rate, every bit length) + Hypothesis + duplex histories",
         "Keccak[25]/[50] exhaustively over every rate and bit length in both bit orders; larger widths, SHA-3/SHAKE and duplex call sequences sampled."),
 "C05": ("model-based testing: SP 800-38A reference modes over the cipher object's own block function, reference paddings, round trips through fresh objects, call histories; SP 800-38A known answers",
         "Every message length 0..3B+1 for DES/AES x modes x paddings enumerated; all ciphers, counter wrap-around and histories sampled."),
 "C06": ("differential testing against reference Salsa20/ChaCha/RC4; metamorphic prefix law; stream and object histories (op-list machines, incl. hash() and abandoned keystream generators on keyed objects); guarded hook for block counters >= 2^32",
         "Length sweep 0..130, random configurations, keystream blocks around 2^32 via the hook, RC4 as one continuous stream over split messages."),
 "C07": ("model-based testing against a (value,size) model: exhaustive widths 0..12/16, every bit order on byte strings, pack/unpack for every byte count",
         "All values of all widths <= 12 (16) through every constructor, conversion and round trip; byte-string loads under every admissible bit order."),
 "C08": ("model-based testing: exhaustive operand pairs (widths <= 6) and index expressions (widths <= 4/5), wide sampled widths, self-assignment b[sel]=b, mutation histories (op-list machine); atheris on index expressions (thorough)",
         "16 129 operand pairs x all operators and every slice/list index expression on small widths exhaustively; word-boundary widths and histories sampled."),
 "C09": ("model-based testing against reference paddings: exhaustive length sweeps, counters after every block, unpad round trip, exhaustive tiny malformed paddings, continuation histories; atheris on remove() (thorough)",
         "Every length 0..3B+1 per scheme and block size, every L%8 at boundaries; all 1-2 byte strings for PKCS#7/X9.23 removal; continuation histories sampled."),
 "C10": ("history (stateful) testing: every call sequence of length <= 2/3 per object kind enumerated, longer ones sampled; oracle = fresh equally configured object + independent pinned answers",
         "46 object kinds incl. module singletons; after every one-shot call its outcome must equal a fresh object's (and the pinned independent value)."),
 "C11": ("differential testing against a reference BLAKE and hashlib BLAKE2: exhaustive length sweeps, Hypothesis over all parameters, preset-counter midstates, reused objects",
         "Every byte length 0..3B+1 for 6 functions; BLAKE2 parameter block fields, salts, keys; counters across word boundaries via preset midstates."),
 "C12": ("differential testing against a reference Skein 1.3 (hash, MAC, configuration stages, output counter mode, tree) and UBI with start positions near 2^64 / 2^96",
         "Every byte length up to 2-4 blocks per state size; output lengths beyond the state, keys, optional stages, tree shapes and UBI position carries sampled."),
 "C13": ("differential testing against RFC 2104 over independent hashes and Python's hmac: every key length 0..2B+9 for 13 hashes, setkey histories",
         "Key-length sweep enumerated, messages and setkey sequences sampled."),
 "C14": ("metamorphic relation piecewise == one-shot plus independent digests: every cut-point list over <= 3/4 blocks enumerated, longer sampled; Nilsimsa every byte cut",
         "16 hashes x all non-decreasing cut lists x 6 final lengths; bit counter after every piece; Nilsimsa over every byte cut."),
 "C15": ("differential testing against zlib and bitwise division; validity predicate for forged data: exhaustive <= 2-byte strings, every forge position for |data| <= 24/40, Hypothesis, histories with several tables alive",
         "All 65 793 short strings; generic widths 8..64; backward tables; every admissible forge position on short data."),
 "C16": ("model-based testing against int lists mod 2^k: exhaustive vectors of dimension <= 3/4 over Z/2,Z/4,Z/8 (3.5e5 / 2.2e7 ordered pairs), index expressions, re-chunking, observe/mutate histories; atheris (thorough)",
         "All ordered pairs x 5 operators in both orders on small rings; rings up to 2^64 and dimensions up to 20 sampled."),
 "C17": ("differential testing against a reference MD6: every digest size, every bit-length residue on 1-3 levels, Hypothesis over trees up to 4 levels (reduced rounds) and default rounds, reused objects",
         "d = 1..512, L in {0,1,2,3,64}, keys, rounds 1..8 and default; up to 36 (70) leaves."),
 "C18": ("translation-validation style differential testing: each generated table network (program) is validated against FIPS 46-3 on 64 single-bit blocks + special + random blocks; table shape and key independence; networks generated side by side",
         "242 (>= 1000 thorough) programs incl. weak/semi-weak/parity-twin keys; exploration, not exhaustive over keys."),
 "C19": ("model-based testing against TLSH / Nilsimsa models: all 30 configurations x gate lengths, Hypothesis data classes, from_hash round trip, distance laws over produced and arbitrary digests; atheris (thorough)",
         "Digest or None == model; distances symmetric, zero on identical, equal across object/bytes forms."),
 "C20": ("exhaustive enumeration against itertools and brute force: every list <= 5 over 3 letters + repeat patterns <= 7/8, every target 0..sum for 600/3000 item lists, call histories (subset sum; unfinished and interleaved combink iterators)",
         "permutk multisets, nextperm successor and full cycles, combink vs itertools, exactsum/dynprog vs all 2^n subsets."),
}

props = [json.loads(l) for l in open(os.path.join(HERE, "properties.jsonl"))]
checks, na = [], []
hook_commits = []
hc = os.path.join(HERE, "hook_commits.txt")
if os.path.exists(hc):
    hook_commits = [l.split()[0] for l in open(hc) if l.strip()]
for p in props:
    pid = p["id"]
    path = os.path.join(HERE, "props", pid.lower() + ".py")
    if not os.path.exists(path):
        na.append({"property_id": pid, "reason": "not claimed yet: the generated-input check for this property has not been built in this tree (technique applies; see DESIGN.md section 5)"})
        continue
    mod = importlib.import_module("props." + pid.lower())
    meta = dict(getattr(mod, "META", {}))
    if pid in TECH:
        meta.setdefault("technique", TECH[pid][0])
        meta.setdefault("level_text", "Generated-input search against an explicit oracle (property-based testing). " + TECH[pid][1] + " The deciding step is the oracle comparison on every generated/enumerated case; the check finds violations and cannot establish their absence outside the explored classes.")
    checks.append({
        "property_id": pid,
        "quick_cmd": "./vcheck run %s --tier quick" % pid,
        "thorough_cmd": "./vcheck run %s --tier thorough" % pid,
        "evidence_file": "evidence/%s.json" % pid,
        "replay_cmd_template": "./vcheck replay {path}",
        "engine": "vcheck",
        "level_claimed": {
            "category": "exploration",
            "text": meta.get("level_text", "Generated-input search (Hypothesis + exhaustive enumeration of the finite sub-domains) against an explicit oracle; finds violations, does not prove absence."),
            "design_ref": "DESIGN.md section 5, " + pid,
        },
        "level_note": meta.get("level_note", "; ".join(getattr(mod, "ASSUMPTIONS", [])) or "oracle as stated in the module docstring"),
        "technique": meta.get("technique", "property-based testing (Hypothesis) + exhaustive enumeration against a reference oracle"),
    })
man = {
    "version": 1,
    "setup_cmd": "./setup.sh",
    "hooks": {
        "guard": "BDCHT_CRYSP_VERIF",
        "enable": "environment variable BDCHT_CRYSP_VERIF=1, set by ./vcheck before crysp is imported (pure Python: no build step)",
        "baseline_off_cmd": "cd /repo && env -u BDCHT_CRYSP_VERIF /venv/bin/python -m pytest -ra -q -p no:cacheprovider --timeout=900 --continue-on-collection-errors",
        "source_commits": hook_commits,
        "add_only": True,
    },
    "engines": [{"name": "vcheck", "path": "vcheck", "serves_properties": [c["property_id"] for c in checks],
                 "kind_free_text": "Python runner: Hypothesis 6.168 strategies and exhaustive enumerations sharded over 16 processes, reference models in ref/, known-findings filter, JSON replay files"}],
    "checks": checks,
    "not_applicable": na,
    "notes": "All checks: exit 0 held, exit 1 + VIOLATION line, exit 2 harness error. VERIF_SEED / VERIF_TIER honoured. Evidence is rewritten on every run.",
}
json.dump(man, open(os.path.join(HERE, "MANIFEST.json"), "w"), indent=1)
print("claimed:", [c["property_id"] for c in checks])
