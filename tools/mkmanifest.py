#!/venv/bin/python
"""Regenerate MANIFEST.json from the property modules present in props/ (PROP_META in each)."""
import json, os, sys, importlib
HERE = os.path.dirname(os.path.dirname(os.path.abspath(__file__)))
sys.path[:0] = ["/repo", HERE]
props = [json.loads(l) for l in open(os.path.join(HERE, "properties.jsonl"))]
checks, na = [], []
hook_commits = []
hc = os.path.join(HERE, "hook_commits.txt")
if os.path.exists(hc):
    hook_commits = [l.split()[0] for l in open(hc) if l.strip()]
for p in props:
    pid = p["id"]
    path = os.path.join(HERE, "props", pid.lower() + ".py")
    if not os.path.exists(path):
        na.append({"property_id": pid, "reason": "not claimed yet: the generated-input check for this property has not been built in this tree (technique applies; see DESIGN.md section 5)"})
        continue
    mod = importlib.import_module("props." + pid.lower())
    meta = getattr(mod, "META", {})
    checks.append({
        "property_id": pid,
        "quick_cmd": "./vcheck run %s --tier quick" % pid,
        "thorough_cmd": "./vcheck run %s --tier thorough" % pid,
        "evidence_file": "evidence/%s.json" % pid,
        "replay_cmd_template": "./vcheck replay {path}",
        "engine": "vcheck",
        "level_claimed": {
            "category": "exploration",
            "text": meta.get("level_text", "Generated-input search (Hypothesis + exhaustive enumeration of the finite sub-domains) against an explicit oracle; finds violations, does not prove absence."),
            "design_ref": "DESIGN.md section 5, " + pid,
        },
        "level_note": meta.get("level_note", "; ".join(getattr(mod, "ASSUMPTIONS", [])) or "oracle as stated in the module docstring"),
        "technique": meta.get("technique", "property-based testing (Hypothesis) + exhaustive enumeration against a reference oracle"),
    })
man = {
    "version": 1,
    "setup_cmd": "./setup.sh",
    "hooks": {
        "guard": "BDCHT_CRYSP_VERIF",
        "enable": "environment variable BDCHT_CRYSP_VERIF=1, set by ./vcheck before crysp is imported (pure Python: no build step)",
        "baseline_off_cmd": "cd /repo && env -u BDCHT_CRYSP_VERIF /venv/bin/python -m pytest -ra -q -p no:cacheprovider --timeout=900 --continue-on-collection-errors",
        "source_commits": hook_commits,
        "add_only": True,
    },
    "engines": [{"name": "vcheck", "path": "vcheck", "serves_properties": [c["property_id"] for c in checks],
                 "kind_free_text": "Python runner: Hypothesis 6.168 strategies and exhaustive enumerations sharded over 16 processes, reference models in ref/, known-findings filter, JSON replay files"}],
    "checks": checks,
    "not_applicable": na,
    "notes": "All checks: exit 0 held, exit 1 + VIOLATION line, exit 2 harness error. VERIF_SEED / VERIF_TIER honoured. Evidence is rewritten on every run.",
}
json.dump(man, open(os.path.join(HERE, "MANIFEST.json"), "w"), indent=1)
print("claimed:", [c["property_id"] for c in checks])
