#!/venv/bin/python
"""Sensitivity helper: tools/mut.py C15 crysp/crc.py 'old text' 'new text' [--tests] [--tier quick]
Copies /repo to a scratch dir outside /repo and /verif, applies the textual mutation, optionally runs
the repository's own tests there, runs the check with VERIF_REPO pointing at the copy, removes the copy.
Alternatively: tools/mut.py C15 --patch file.diff"""
import sys, os, subprocess, tempfile, shutil, argparse
ap = argparse.ArgumentParser()
ap.add_argument("prop"); ap.add_argument("file", nargs="?"); ap.add_argument("old", nargs="?"); ap.add_argument("new", nargs="?")
ap.add_argument("--patch"); ap.add_argument("--tests", action="store_true"); ap.add_argument("--tier", default="quick")
ap.add_argument("--facet", action="append"); ap.add_argument("--count", type=int, default=1)
a = ap.parse_args()
d = tempfile.mkdtemp(prefix="crysp-mut-")
try:
    subprocess.check_call(["rsync", "-a", "--exclude", ".git", "--exclude", "__pycache__", "/repo/", d + "/"])
    if a.patch:
        subprocess.check_call(["patch", "-p1", "-s", "-d", d, "-i", os.path.abspath(a.patch)])
    else:
        p = os.path.join(d, a.file)
        s = open(p).read()
        if s.count(a.old) < 1:
            print("mutation target not found"); sys.exit(3)
        s = s.replace(a.old, a.new, a.count)
        open(p, "w").write(s)
    env = dict(os.environ, VERIF_REPO=d, PYTHONDONTWRITEBYTECODE="1", VERIF_EVIDENCE_DIR=os.path.join(d, ".evidence"))
    if a.tests:
        r = subprocess.run(["/venv/bin/python", "-m", "pytest", "-q", "-x", "-p", "no:cacheprovider", "tests"], cwd=d,
                           env=dict(env, PYTHONPATH=d), capture_output=True, text=True)
        print("repo tests:", r.stdout.strip().splitlines()[-1] if r.stdout.strip() else r.stderr[-300:])
    cmd = ["/verif/vcheck", "run", a.prop, "--tier", a.tier]
    for f in a.facet or []:
        cmd += ["--facet", f]
    r = subprocess.run(cmd, env=env, cwd="/verif", capture_output=True, text=True)
    out = r.stdout.replace(d, "<mut>")
    print("\n".join(out.splitlines()[:14]))
    if r.stderr.strip(): print("stderr:", r.stderr[-500:])
    print("check exit:", r.returncode)
finally:
    shutil.rmtree(d, ignore_errors=True)
