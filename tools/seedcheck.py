#!/venv/bin/python
"""tools/seedcheck.py C07 [n ...] : validate seeded defects produced by a sub-agent in /tmp/seed/<ID>/out/<n>/
against the CURRENT /repo tree, run the quick check on each, and store the confirmed ones under /verif/seeded/<ID>-<n>/."""
import sys, os, subprocess, tempfile, shutil, json, time
pid = sys.argv[1]
sfx = ""
args = sys.argv[2:]
if args and args[0] == "--suffix":
    sfx = args[1]
    args = args[2:]
src = "/tmp/seed/%s%s/out" % (pid, sfx)
ns = args or sorted(os.listdir(src))
tier = os.environ.get("SEED_TIER", "quick")
for n in ns:
    d = os.path.join(src, n)
    if not os.path.exists(os.path.join(d, "patch.diff")):
        continue
    t = tempfile.mkdtemp(prefix="crysp-seed-")
    res = {"property": pid, "n": n}
    try:
        subprocess.check_call(["rsync", "-a", "--exclude", ".git", "--exclude", "__pycache__", "--exclude", "out", "/repo/", t + "/"])
        env = dict(os.environ, PYTHONPATH=t, PYTHONDONTWRITEBYTECODE="1")
        r = subprocess.run(["/venv/bin/python", os.path.join(d, "demo.py")], env=env, capture_output=True, text=True, cwd=t)
        res["demo_clean_exit"] = r.returncode
        ap = subprocess.run(["patch", "-p1", "-s", "--no-backup-if-mismatch", "-d", t, "-i", os.path.join(d, "patch.diff")], capture_output=True, text=True)
        res["patch_applies"] = ap.returncode == 0
        if ap.returncode:
            res["patch_err"] = (ap.stdout + ap.stderr)[-300:]
        else:
            r = subprocess.run(["/venv/bin/python", os.path.join(d, "demo.py")], env=env, capture_output=True, text=True, cwd=t)
            res["demo_patched_exit"] = r.returncode
            res["demo_patched_tail"] = (r.stdout + r.stderr).strip().splitlines()[-1:] 
            r = subprocess.run(["/venv/bin/python", "-m", "pytest", "-q", "-p", "no:cacheprovider", "tests"], env=env, capture_output=True, text=True, cwd=t)
            res["repo_tests"] = r.stdout.strip().splitlines()[-1] if r.stdout.strip() else r.stderr[-200:]
            if "failed" in res["repo_tests"] and "test_aes" in r.stdout and "_random" in r.stdout:
                # tests/test_aes.py::test_aes_192/256_random build a 15-byte message once in 256 runs (Bits(getrandbits(128)) without a size)
                # and fail on the pinned tree too: repeat once
                r = subprocess.run(["/venv/bin/python", "-m", "pytest", "-q", "-p", "no:cacheprovider", "tests"], env=env, capture_output=True, text=True, cwd=t)
                res["repo_tests"] = (r.stdout.strip().splitlines()[-1] if r.stdout.strip() else r.stderr[-200:]) + " (second run; first run hit the repository's own 1/256 flake in test_aes_*_random)"
            t0 = time.time()
            r = subprocess.run(["/verif/vcheck", "run", pid, "--tier", tier],
                               env=dict(os.environ, VERIF_REPO=t, VERIF_EVIDENCE_DIR=os.path.join(t, ".ev")), capture_output=True, text=True, cwd="/verif")
            res["check_exit"] = r.returncode
            res["check_wall_s"] = round(time.time() - t0, 1)
            res["check_signatures"] = sorted(set(l.split("signature=")[1] for l in r.stdout.splitlines() if "signature=" in l))[:8]
            if r.returncode not in (0, 1):
                res["check_out"] = (r.stdout + r.stderr)[-600:]
    finally:
        shutil.rmtree(t, ignore_errors=True)
    ok = res.get("demo_clean_exit") == 0 and res.get("patch_applies") and res.get("demo_patched_exit", 0) != 0 and "passed" in res.get("repo_tests", "") and "failed" not in res.get("repo_tests", "")
    res["confirmed"] = bool(ok)
    res["detected"] = res.get("check_exit") == 1
    print(json.dumps(res, indent=1))
    if ok:
        out = "/verif/seeded/%s-%s%s" % (pid, sfx, n)
        os.makedirs(out, exist_ok=True)
        shutil.copy(os.path.join(d, "patch.diff"), out)
        shutil.copy(os.path.join(d, "demo.py"), out)
        meta = {}
        try:
            meta = json.load(open(os.path.join(d, "meta.json")))
        except Exception:
            pass
        meta.update({"property": pid, "confirmed_by": "tools/seedcheck.py: patch applies to /repo HEAD %s, repo tests pass with it (%s), demo.py exits 0 clean / %s patched" % (
            subprocess.check_output(["git", "-C", "/repo", "rev-parse", "--short", "HEAD"], text=True).strip(), res["repo_tests"], res["demo_patched_exit"]),
            "quick_check_detects": res["detected"], "check_signatures": res["check_signatures"], "check_tier": tier})
        json.dump(meta, open(os.path.join(out, "meta.json"), "w"), indent=1)
