#!/venv/bin/python
"""tools/seedrun.py [ID ...] : run the quick check of each property against every seeded defect stored under
/verif/seeded/<ID>-<n>/patch.diff (applied to a scratch copy of /repo), update meta.json (unless SEED_NOWRITE is set), print a table."""
import sys, os, subprocess, tempfile, shutil, json, time
want = [x.upper() for x in sys.argv[1:]]
tier = os.environ.get("SEED_TIER", "quick")
root = "/verif/seeded"
rows = []
for name in sorted(os.listdir(root)):
    pid = name.split("-")[0]
    if want and pid not in want:
        continue
    d = os.path.join(root, name)
    t = tempfile.mkdtemp(prefix="crysp-seed-")
    try:
        subprocess.check_call(["rsync", "-a", "--exclude", ".git", "--exclude", "__pycache__", "/repo/", t + "/"])
        ap = subprocess.run(["patch", "-p1", "-s", "--no-backup-if-mismatch", "-d", t, "-i", os.path.join(d, "patch.diff")], capture_output=True, text=True)
        if ap.returncode:
            rows.append((name, "PATCH-DOES-NOT-APPLY", "", 0)); continue
        env = dict(os.environ, PYTHONPATH=t, PYTHONDONTWRITEBYTECODE="1")
        dr = subprocess.run(["/venv/bin/python", os.path.join(d, "demo.py")], env=env, capture_output=True, text=True, cwd=t)
        t0 = time.time()
        r = subprocess.run(["/verif/vcheck", "run", pid, "--tier", tier],
                           env=dict(os.environ, VERIF_REPO=t, VERIF_EVIDENCE_DIR=os.path.join(t, ".ev")), capture_output=True, text=True, cwd="/verif")
        sigs = sorted(set(l.split("signature=")[1] for l in r.stdout.splitlines() if "signature=" in l))[:6]
        rows.append((name, {0: "MISSED", 1: "detected"}.get(r.returncode, "HARNESS-ERROR %d" % r.returncode), ", ".join(sigs), round(time.time() - t0, 1)))
        if os.environ.get("SEED_NOWRITE"):
            continue        # e.g. VERIF_SEED=2 SEED_NOWRITE=1 tools/seedrun.py : detection at another seed, meta.json untouched
        mp = os.path.join(d, "meta.json")
        meta = json.load(open(mp))
        meta.update({"quick_check_detects": r.returncode == 1, "check_signatures": sigs, "check_tier": tier, "demo_fails_with_patch": dr.returncode != 0})
        json.dump(meta, open(mp, "w"), indent=1)
    finally:
        shutil.rmtree(t, ignore_errors=True)
for row in rows:
    print("%-10s %-12s %5ss  %s" % (row[0], row[1], row[3], row[2]))
