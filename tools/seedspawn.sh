#!/bin/sh
# tools/seedspawn.sh C09 : create a scratch worktree of /repo HEAD for a seeded-defect sub-agent and write its prompt
set -e
id=$1
mkdir -p /tmp/seed
git -C /repo worktree add --detach /tmp/seed/$id HEAD >/dev/null 2>&1
mkdir -p /tmp/seed/$id/out
/venv/bin/python - "$id" <<'PY'
import json, sys
i = sys.argv[1]
for l in open('/verif/properties.jsonl'):
    p = json.loads(l)
    if p['id'] == i:
        prop = "%s - %s\n\nStatement: %s\n\nQuantifier: %s\n\nAnchored in files: %s\n" % (p['id'], p['title'], p['statement'], p['quantifier']['text'], ', '.join(p['anchors']['files']))
t = open('/verif/tools/seed_prompt.tmpl').read()
open('/tmp/seed/%s.prompt' % i, 'w').write(t.replace('@ID@', i).replace('@PROP@', prop))
PY
echo "/tmp/seed/$id.prompt"
