#!/bin/sh
# tools/seedspawn.sh C09 [suffix] : create a scratch worktree of /repo HEAD for a seeded-defect sub-agent and write its prompt.
# With a suffix (second round) the prompt also lists the titles of the seeds already collected for that property, to be avoided.
set -e
id=$1
sfx=$2
dir=/tmp/seed/$id$sfx
mkdir -p /tmp/seed
git -C /repo worktree add --detach $dir HEAD >/dev/null 2>&1
mkdir -p $dir/out
/venv/bin/python - "$id" "$sfx" <<'PY'
import json, sys, glob, os
i, sfx = sys.argv[1], sys.argv[2]
for l in open('/verif/properties.jsonl'):
    p = json.loads(l)
    if p['id'] == i:
        prop = "%s - %s\n\nStatement: %s\n\nQuantifier: %s\n\nAnchored in files: %s\n" % (p['id'], p['title'], p['statement'], p['quantifier']['text'], ', '.join(p['anchors']['files']))
t = open('/verif/tools/seed_prompt.tmpl').read()
t = t.replace('/tmp/seed/@ID@', '/tmp/seed/' + i + sfx).replace('@ID@', i).replace('@PROP@', prop)
if sfx:
    known = []
    for d in sorted(glob.glob('/verif/seeded/%s-*' % i)):
        try:
            m = json.load(open(os.path.join(d, 'meta.json')))
            known.append("- %s (%s)" % (m.get('title', '?'), ', '.join(m.get('files_touched', []))))
        except Exception:
            pass
    t += "\n\nSECOND ROUND NOTE: earlier rounds already produced the following ideas for this property; do NOT repeat them or close variants, look for different mechanisms (other functions, other kinds of state, other boundaries, error paths, rarely used options, interactions between modules):\n" + "\n".join(known) + "\n"
open('/tmp/seed/%s%s.prompt' % (i, sfx), 'w').write(t)
PY
echo "/tmp/seed/$id$sfx.prompt"
