"""Case codec: cases are plain Python values (dict/list/tuple/int/str/bytes/bool/None/float).
JSON cannot carry bytes or tuples, so they are tagged.  The canonical JSON text of
a case is also what 'distinct' is measured on."""
import json, hashlib


def enc(o):
    if isinstance(o, (bytes, bytearray)):
        return {"$b": bytes(o).hex()}
    if isinstance(o, tuple):
        return {"$t": [enc(x) for x in o]}
    if isinstance(o, list):
        return [enc(x) for x in o]
    if isinstance(o, dict):
        return {str(k): enc(v) for k, v in o.items()}
    if o is None or isinstance(o, (bool, int, str, float)):
        return o
    raise TypeError("case value not encodable: %r" % (type(o),))


def dec(o):
    if isinstance(o, list):
        return [dec(x) for x in o]
    if isinstance(o, dict):
        if len(o) == 1 and "$b" in o:
            return bytes.fromhex(o["$b"])
        if len(o) == 1 and "$t" in o:
            return tuple(dec(x) for x in o["$t"])
        return {k: dec(v) for k, v in o.items()}
    return o


def canon(o):
    return json.dumps(enc(o), sort_keys=True, separators=(",", ":"))


def digest(o):
    return int.from_bytes(hashlib.blake2b(canon(o).encode(), digest_size=8).digest(), "big")


def short(o, limit=400):
    """encoded form for evidence samples, long byte strings abbreviated"""
    def ab(x):
        if isinstance(x, (bytes, bytearray)):
            h = bytes(x).hex()
            if len(h) > 96:
                return {"$b": h[:64] + "...", "len": len(x)}
            return {"$b": h}
        if isinstance(x, tuple):
            return {"$t": [ab(y) for y in x]}
        if isinstance(x, list):
            if len(x) > 40:
                return [ab(y) for y in x[:40]] + ["...(%d items)" % len(x)]
            return [ab(y) for y in x]
        if isinstance(x, dict):
            return {str(k): ab(v) for k, v in x.items()}
        if isinstance(x, int) and not isinstance(x, bool) and x.bit_length() > 256:
            return {"$int_hex": hex(x)[:70] + "...", "bits": x.bit_length()}
        return x
    return ab(o)
