"""Facets, violations, exception classification and the known-findings filter."""
import os, sys, json, traceback, fnmatch

VERIF_DIR = os.path.dirname(os.path.dirname(os.path.abspath(__file__)))
REPO = os.path.abspath(os.environ.get("VERIF_REPO", "/repo"))

ALLOWED = "rejected-as-allowed"   # check() returns this when the property permits a refusal


class Violation(Exception):
    """The property is broken on this case.  signature names a root-cause class."""
    def __init__(self, signature, expected=None, actual=None, note=""):
        Exception.__init__(self, signature)
        self.signature = signature
        self.expected = expected
        self.actual = actual
        self.note = note


class HarnessError(Exception):
    pass


def _origin(exc):
    """('crysp'|'verif'|'other', 'module.function') of the innermost frame that belongs
    to the code under test or to the harness."""
    tb = traceback.extract_tb(exc.__traceback__)
    crysp_dir = os.path.join(REPO, "crysp") + os.sep
    for fr in reversed(tb):
        fn = os.path.abspath(fr.filename)
        if fn.startswith(crysp_dir):
            mod = fn[len(crysp_dir):].rsplit(".", 1)[0].replace(os.sep, ".")
            return "crysp", "%s.%s" % (mod, fr.name)
        if fn.startswith(VERIF_DIR + os.sep):
            return "verif", "%s:%s" % (os.path.basename(fn), fr.name)
    return "other", "?"


def exc_signature(exc):
    return "exc:%s@%s" % (type(exc).__name__, _origin(exc)[1])


def guard(fn, *a, **k):
    """Call code under test; an exception it raises is a violation (the property
    did not allow a refusal here)."""
    try:
        return fn(*a, **k)
    except Violation:
        raise
    except RecursionError as e:
        raise Violation("exc:RecursionError", actual=repr(e)[:200])
    except Exception as e:
        where, _ = _origin(e)
        if where == "verif" and not getattr(fn, "_under_test", False):
            # raised by harness code that was passed in (a lambda around crysp is fine:
            # innermost relevant frame decides)
            raise
        raise Violation(exc_signature(e), actual="%s: %s" % (type(e).__name__, str(e)[:200]))


def attempt(fn, *a, **k):
    """Call code under test where a refusal is a possible outcome.
    -> ('ok', value) | ('exc', exception).  Harness-origin exceptions propagate."""
    try:
        return "ok", fn(*a, **k)
    except Violation:
        raise
    except Exception as e:
        where, _ = _origin(e)
        if where == "verif":
            raise
        return "exc", e


def expect(cond, signature, expected=None, actual=None, note=""):
    if not cond:
        raise Violation(signature, expected, actual, note)


def eq(actual, expected, signature, note=""):
    if actual != expected:
        raise Violation(signature, expected, actual, note)


class Facet(object):
    """One way of attacking a property.

    Enumerated facet:  cases(tier, rnd) -> iterator of cases (rnd = random.Random seeded
                       from VERIF_SEED, used only for the *content* of swept messages).
    Hypothesis facet:  strategy(tier) -> strategy of cases; budget[tier] examples in total.
    check(case) -> None | ALLOWED ; raises Violation.
    """
    def __init__(self, name, check, cases=None, strategy=None, budget=None,
                 nontrivial=None, classify=None, exhaustive=False, distinct=False,
                 shards=None, rule="", suppress_too_slow=False, max_fail_per_sig=1, fuzz=None):
        self.name = name
        self.check = check
        self.cases = cases
        self.strategy = strategy
        self.budget = budget or {"quick": 200, "thorough": 2000}
        self.nontrivial = nontrivial or (lambda case: True)
        self.classify = classify or (lambda case: ())
        self.exhaustive = exhaustive          # bool or {'quick':..,'thorough':..}
        self.distinct = distinct              # cases distinct by construction (skip hashing)
        self.shards = shards or {"quick": 8, "thorough": 16}
        self.rule = rule
        self.suppress_too_slow = suppress_too_slow
        self.max_fail_per_sig = max_fail_per_sig
        self.fuzz = fuzz or {}                # {tier: libFuzzer runs} - extra coverage-guided session (atheris), Hypothesis facets only
        assert (cases is None) != (strategy is None)

    def is_exhaustive(self, tier):
        e = self.exhaustive
        return bool(e.get(tier)) if isinstance(e, dict) else bool(e)


# ---------------------------------------------------------------------------
# known findings

def load_findings(prop_id):
    path = os.path.join(VERIF_DIR, "known_findings.json")
    if not os.path.exists(path):
        return []
    with open(path) as f:
        data = json.load(f)
    return [e for e in data.get("findings", []) if e.get("property") == prop_id]


def match_open(findings, facet_name, signature):
    """id of the open finding that lists this failure, else None.  Fixed entries
    suppress nothing."""
    for e in findings:
        if e.get("status") != "open":
            continue
        if not fnmatch.fnmatchcase(facet_name, e.get("facet", "*")):
            continue
        if e.get("signature") == signature:
            return e["id"]
    return None
