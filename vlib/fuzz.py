"""Coverage-guided engine (atheris / libFuzzer) for one facet.  Run as a separate process:

    python -m vlib.fuzz <PROP> <FACET> <TIER> <SEED> <RUNS> <OUT.json> <CORPUS_DIR>

It drives the SAME Hypothesis test (generator, oracle, replay format) through test.hypothesis.fuzz_one_input, with
crysp instrumented for coverage.  libFuzzer never returns from Fuzz() and skips Python finalisation, so the counters are
flushed to OUT.json periodically and on the first failure."""
import os, sys, json, time


def main():
    prop_id, facet_name, tier, seed, runs, out, corpus = sys.argv[1:8]
    seed, runs = int(seed), int(runs)
    here = os.path.dirname(os.path.dirname(os.path.abspath(__file__)))
    repo = os.path.abspath(os.environ.get("VERIF_REPO", "/repo"))
    deps = os.path.join(here, ".deps")
    sys.path[:0] = [repo, here] + ([deps] if os.path.isdir(deps) else [])
    state = {"engine": "atheris", "available": False, "evaluations": 0, "failures": [], "wall": 0.0, "runs_requested": runs}

    def flush():
        state["wall"] = time.time() - t0
        tmp = out + ".tmp"
        with open(tmp, "w") as f:
            json.dump(state, f)
        os.replace(tmp, out)
    t0 = time.time()
    try:
        import atheris
    except Exception as e:
        state["note"] = "atheris not importable: %r" % (e,)
        flush()
        return 0
    state["available"] = True
    with atheris.instrument_imports(include=["crysp"]):
        from vlib import runner, codec
        from vlib.core import Violation, load_findings
        mod = runner.load_property(prop_id)
    facet = runner.find_facet(mod, facet_name)
    tally = runner.Tally(facet, load_findings(prop_id))
    import hypothesis
    from hypothesis import given, settings, HealthCheck

    def body(case):
        tally.note_case(case)
        fail = tally.run_one(case)
        state["evaluations"] = tally.evaluations
        if fail is not None:
            fail = dict(fail)
            fail["case"] = codec.enc(fail["case"])
            state["failures"].append(fail)
            state.update(nontrivial=len(tally.digests) + tally.nontrivial_count, classes=dict(tally.classes), known=dict(tally.known))
            flush()
            raise Violation(fail["signature"])
        if tally.evaluations % 500 == 0:
            state.update(nontrivial=len(tally.digests) + tally.nontrivial_count, classes=dict(tally.classes), known=dict(tally.known),
                         samples=tally.samples[:3])
            flush()

    test = settings(database=None, deadline=None, suppress_health_check=list(HealthCheck))(given(facet.strategy(tier))(body))
    os.makedirs(corpus, exist_ok=True)
    flush()
    atheris.Setup([sys.argv[0], "-runs=%d" % runs, "-seed=%d" % (seed % (1 << 31) or 1), "-max_len=4096", "-verbosity=0", "-print_final_stats=0", corpus],
                  test.hypothesis.fuzz_one_input)
    atheris.Fuzz()


if __name__ == "__main__":
    sys.exit(main())
