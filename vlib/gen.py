"""Generator helpers.  Measured on Hypothesis 6.168: bounded st.integers() inside a composite
case returns the lower bound in ~50 % of the examples, st.integers(0, 2**32) is almost always
tiny and st.binary(max_size=600) never exceeded 50 bytes in 1000 examples, while
st.sampled_from(range) and the *content* of fixed-length st.binary are uniform.  The helpers
below therefore build sizes from sampled_from and big integers / contents from fixed-length
binary, so that the distribution is the one the facet states (construction, not rejection)."""
from hypothesis import strategies as st


def uint(lo, hi):
    """uniform integer in lo..hi"""
    if hi - lo < (1 << 16):
        return st.sampled_from(range(lo, hi + 1))
    span = hi - lo + 1
    nb = (span.bit_length() + 7) // 8 + 1
    return st.binary(min_size=nb, max_size=nb).map(lambda b: lo + int.from_bytes(b, "big") % span)


def pick(*weighted):
    """pick((3, strat_a), (1, strat_b)): choose a branch with the given integer weights"""
    table = []
    for w, s in weighted:
        table.extend([s] * w)
    return st.sampled_from(range(len(table))).flatmap(lambda i: table[i])


def nbits(n):
    """integer 0 <= x < 2**n: uniform (3/5), special values (2/5)"""
    if n == 0:
        return st.just(0)
    mask = (1 << n) - 1
    nb = (n + 7) // 8
    uni = st.binary(min_size=nb, max_size=nb).map(lambda b: int.from_bytes(b, "big") & mask)
    spec = [0, 1, mask, mask - 1, 1 << (n - 1), (1 << (n - 1)) - 1 if n > 1 else 0, mask // 3, mask // 3 * 2]
    edges = uint(0, n - 1).flatmap(lambda k: st.sampled_from(
        [(1 << k) & mask, ((1 << k) - 1) & mask, ((1 << k) + 1) & mask, mask ^ (1 << k)]))
    return pick((3, uni), (1, st.sampled_from(spec)), (1, edges))


def blob(n):
    """bytes of exactly n bytes: random (4/6), constant 00/ff (1/6), single bit set (1/6)"""
    if n == 0:
        return st.just(b"")
    rnd = st.binary(min_size=n, max_size=n)
    const = st.sampled_from([b"\x00", b"\xff", b"\x80", b"\x01"]).map(lambda c: c * n)
    onebit = uint(0, 8 * n - 1).map(lambda k: (1 << k).to_bytes(n, "big"))
    return pick((4, rnd), (1, const), (1, onebit))


def blob_of(lenstrat):
    return lenstrat.flatmap(blob)


def length(block, maxblocks=3, special=(), extra_max=None):
    """message length in bytes = k*block + r with k uniform in 0..maxblocks and the residue
    boundary-biased on {0,1,block-1} + special"""
    res = sorted(set([0, 1, block - 1] + [s % block for s in special]))
    r = pick((1, st.sampled_from(res)), (1, uint(0, block - 1)))
    k = uint(0, maxblocks)
    return st.tuples(k, r).map(lambda t: t[0] * block + t[1])
