"""Runner: shards facets over a process pool, collects counters, writes evidence and replays."""
import os, sys, json, time, random, hashlib, importlib, traceback, collections
from . import codec
from .core import (Violation, HarnessError, Facet, ALLOWED, VERIF_DIR, REPO,
                   load_findings, match_open, exc_signature, _origin)

MAX_SAMPLES = 4


def seed_for(seed, *parts):
    h = hashlib.blake2b(("%d|" % seed + "|".join(str(p) for p in parts)).encode(), digest_size=8)
    return int.from_bytes(h.digest(), "big")


def load_property(prop_id):
    mod = importlib.import_module("props.%s" % prop_id.lower())
    return mod


def find_facet(mod, name):
    for f in mod.FACETS:
        if f.name == name:
            return f
    raise HarnessError("no facet %s" % name)


def classify_exception(e):
    """Violation for exceptions that originate in the code under test, HarnessError otherwise."""
    if isinstance(e, Violation):
        return e
    if isinstance(e, RecursionError):
        return Violation("exc:RecursionError", actual=repr(e)[:200])
    where, _ = _origin(e)
    if where == "crysp":
        return Violation(exc_signature(e), actual="%s: %s" % (type(e).__name__, str(e)[:300]))
    return None


CASE_LIMIT_S = int(os.environ.get("VERIF_CASE_LIMIT", "180") or 180)


class CaseTimeout(BaseException):
    """one case did not return within CASE_LIMIT_S (cases normally take milliseconds to a few seconds): treated as
    non-termination of the code under test.  BaseException so that Hypothesis does not try to shrink a hanging case."""


class case_alarm(object):
    def __enter__(self):
        import signal
        self.signal = signal
        try:
            self.old = signal.signal(signal.SIGALRM, self._fire)
            signal.alarm(CASE_LIMIT_S)
            self.armed = True
        except ValueError:          # not in the main thread
            self.armed = False
        return self

    def _fire(self, signum, frame):
        raise CaseTimeout()

    def __exit__(self, *a):
        if self.armed:
            self.signal.alarm(0)
            self.signal.signal(self.signal.SIGALRM, self.old)
        return False


def timeout_failure(case):
    return {"signature": "no-result-within-%ds(non-termination)" % CASE_LIMIT_S, "case": case, "expected": "a result",
            "actual": "the call did not return within %d s" % CASE_LIMIT_S, "note": "every other case of this facet takes milliseconds to seconds"}


class Tally(object):
    def __init__(self, facet, findings):
        self.facet = facet
        self.findings = findings
        self.evaluations = 0
        self.rejected = 0
        self.nontrivial_count = 0
        self.digests = set()
        self.classes = collections.Counter()
        self.known = collections.Counter()
        self.masked = collections.Counter()
        self.samples = []
        self.last_case = None
        self.failures = {}      # signature -> list of failure dicts

    def note_case(self, case):
        f = self.facet
        self.evaluations += 1
        if f.nontrivial(case):
            if f.distinct:
                self.nontrivial_count += 1
            else:
                self.digests.add(codec.digest(case))
        for lab in f.classify(case) or ():
            self.classes[lab] += 1
        n = self.evaluations
        if len(self.samples) < MAX_SAMPLES and (n == 1 or (n & (n - 1)) == 0 and n >= 16):
            self.samples.append(codec.short(case))
        self.last_case = case

    def run_one(self, case, mask=()):
        """-> None (held / allowed / known / masked) or a failure dict"""
        f = self.facet
        try:
            with case_alarm():
                r = f.check(case)
            if r == ALLOWED:
                self.rejected += 1
            return None
        except Exception as e:
            v = classify_exception(e)
            if v is None:
                raise
            kid = match_open(self.findings, f.name, v.signature)
            if kid is not None:
                self.known[kid] += 1
                return None
            if v.signature in mask:
                self.masked[v.signature] += 1
                return None
            return {"signature": v.signature, "case": case,
                    "expected": codec.short(_jsonable(v.expected)),
                    "actual": codec.short(_jsonable(v.actual)), "note": v.note}

    def result(self):
        if self.last_case is not None and len(self.samples) < MAX_SAMPLES + 1:
            s = codec.short(self.last_case)
            if s not in self.samples:
                self.samples.append(s)
        fails = []
        for sig, lst in self.failures.items():
            for d in lst:
                d = dict(d)
                d["case"] = codec.enc(d["case"])
                fails.append(d)
        return {"evaluations": self.evaluations, "rejected": self.rejected,
                "nontrivial_count": self.nontrivial_count, "digests": self.digests,
                "classes": dict(self.classes), "known": dict(self.known),
                "masked": dict(self.masked), "samples": self.samples, "failures": fails}


def _jsonable(o):
    try:
        codec.enc(o)
        return o
    except TypeError:
        return repr(o)[:400]


def _case_size(case):
    return len(codec.canon(case))


def run_enum(facet, tally, tier, seed, shard, nshards):
    rnd = random.Random(seed_for(seed, "content", facet.name))
    for i, case in enumerate(facet.cases(tier, rnd)):
        if i % nshards != shard:
            continue
        tally.note_case(case)
        try:
            fail = tally.run_one(case)
        except CaseTimeout:
            fail = timeout_failure(case)
            tally.failures.setdefault(fail["signature"], []).append(fail)
            break
        if fail is not None:
            lst = tally.failures.setdefault(fail["signature"], [])
            lst.append(fail)
            lst.sort(key=lambda d: _case_size(d["case"]))
            del lst[facet.max_fail_per_sig:]
            if len(tally.failures) >= 8:
                break


def run_hyp(facet, tally, tier, seed, shard, nshards):
    import hypothesis
    from hypothesis import given, settings, HealthCheck, Phase
    n = max(1, facet.budget[tier] // nshards)
    strat = facet.strategy(tier)
    # too_slow is a wall-clock health check: under machine load it would turn slowness into a harness error
    suppress = [HealthCheck.too_slow, HealthCheck.data_too_large]
    mask = set()
    for rnd_no in range(4):
        state = {"fail": None}

        def body(case):
            tally.note_case(case)
            fail = tally.run_one(case, mask)
            if fail is not None:
                state["fail"] = fail
                raise Violation(fail["signature"])

        test = settings(max_examples=n, deadline=None, database=None, derandomize=False,
                        report_multiple_bugs=False, suppress_health_check=suppress,
                        print_blob=False,
                        phases=[Phase.explicit, Phase.generate, Phase.target, Phase.shrink])(
            hypothesis.seed(seed_for(seed, facet.name, shard, rnd_no))(given(strat)(body)))
        try:
            test()
            break
        except CaseTimeout:
            fail = timeout_failure(tally.last_case)
            tally.failures.setdefault(fail["signature"], []).append(fail)
            break
        except Violation:
            fail = state["fail"]       # Hypothesis replays the minimal example last
            tally.failures.setdefault(fail["signature"], []).append(fail)
            mask.add(fail["signature"])
            n = max(1, n // 2)
        except hypothesis.errors.Flaky:
            # the same generated case failed once and passed on replay: the code under test keeps state across
            # calls in this process (class/module-level caches, leaked configuration).  That is a violation in its
            # own right (results must not depend on earlier calls); the saved case may need the history to reproduce.
            fail = state["fail"]
            if fail is None:
                raise
            fail = dict(fail)
            mask.add(fail["signature"])
            fail["signature"] += ":history-dependent"
            fail["note"] = "failed when generated, passed when replayed alone: depends on earlier calls in the same process"
            tally.failures.setdefault(fail["signature"], []).append(fail)
            n = max(1, n // 2)
        # any other exception: harness problem, propagates


def run_fuzz(job):
    """one atheris/libFuzzer session in a child process (libFuzzer never returns from Fuzz())"""
    import subprocess, tempfile, shutil
    prop_id, facet_name, tier, seed, _, runs = job
    scratch = tempfile.mkdtemp(prefix="fuzz-", dir=_scratch_dir())
    outp = os.path.join(scratch, "out.json")
    try:
        env = dict(os.environ, PYTHONPATH=VERIF_DIR)
        p = subprocess.run([sys.executable, "-m", "vlib.fuzz", prop_id, facet_name, tier, str(seed), str(runs), outp, os.path.join(scratch, "corpus")],
                           cwd=VERIF_DIR, env=env, capture_output=True, text=True, timeout=3 * 3600)
        st = json.load(open(outp)) if os.path.exists(outp) else {"available": False, "note": "no output: " + (p.stderr or "")[-300:]}
        if st.get("available") and not st.get("failures") and p.returncode not in (0,):
            # libFuzzer died without a recorded property failure: harness problem
            return {"error": "atheris session failed (rc=%s): %s" % (p.returncode, (p.stdout + p.stderr)[-1500:])}
        return {"evaluations": st.get("evaluations", 0), "rejected": 0, "nontrivial_count": st.get("nontrivial", 0), "digests": set(),
                "classes": st.get("classes", {}), "known": st.get("known", {}), "masked": {}, "samples": st.get("samples", []),
                "failures": st.get("failures", []), "error": None,
                "fuzz": {"available": st.get("available", False), "note": st.get("note", ""), "runs_requested": runs,
                         "executions_recorded": st.get("evaluations", 0), "wall_s": round(st.get("wall", 0), 1)}}
    finally:
        shutil.rmtree(scratch, ignore_errors=True)


def _scratch_dir():
    d = os.path.join(VERIF_DIR, ".scratch")
    os.makedirs(d, exist_ok=True)
    return d


def work(job):
    prop_id, facet_name, tier, seed, shard, nshards = job
    t0 = time.time()
    out = {"job": job, "error": None}
    try:        # a runaway allocation in the code under test must not take the machine down: MemoryError instead
        import resource
        lim = int(os.environ.get("VERIF_MEM_GB", "6")) << 30
        resource.setrlimit(resource.RLIMIT_AS, (lim, lim))
    except Exception:
        pass
    if shard == "fuzz":
        try:
            out.update(run_fuzz(job))
        except BaseException as e:
            out["error"] = "".join(traceback.format_exception(type(e), e, e.__traceback__))[-4000:]
        out["wall"] = time.time() - t0
        return out
    try:
        mod = load_property(prop_id)
        facet = find_facet(mod, facet_name)
        tally = Tally(facet, load_findings(prop_id))
        if facet.cases is not None:
            run_enum(facet, tally, tier, seed, shard, nshards)
        else:
            run_hyp(facet, tally, tier, seed, shard, nshards)
        out.update(tally.result())
    except BaseException as e:
        out["error"] = "".join(traceback.format_exception(type(e), e, e.__traceback__))[-4000:]
    out["wall"] = time.time() - t0
    return out


def check_repo_import():
    import crysp
    p = os.path.abspath(os.path.dirname(crysp.__file__))
    if not p.startswith(REPO + os.sep):
        raise HarnessError("crysp imported from %s, expected under %s" % (p, REPO))


def replay_file(path):
    with open(path) as f:
        d = json.load(f)
    prop_id, facet_name = d["property"], d["facet"]
    mod = load_property(prop_id)
    facet = find_facet(mod, facet_name)
    case = codec.dec(d["case"])
    tally = Tally(facet, load_findings(prop_id))
    try:
        fail = tally.run_one(case)
    except CaseTimeout:
        fail = timeout_failure(case)
    return prop_id, facet_name, fail, tally


def write_replay(prop_id, facet_name, fail, seed, tier, outdir=None):
    outdir = outdir or os.path.join(VERIF_DIR, "replays", prop_id)
    os.makedirs(outdir, exist_ok=True)
    body = {"property": prop_id, "facet": facet_name, "case": fail["case"],
            "signature": fail["signature"], "expected": fail.get("expected"),
            "actual": fail.get("actual"), "note": fail.get("note", ""),
            "seed": seed, "tier": tier}
    h = hashlib.blake2b(json.dumps(body["case"], sort_keys=True).encode(), digest_size=6).hexdigest()
    path = os.path.join(outdir, "%s-%s.json" % (facet_name.replace("/", "_"), h))
    with open(path, "w") as f:
        json.dump(body, f, indent=1, sort_keys=True)
    return path


def run_property(prop_id, tier, seed, only=None, jobs=None):
    """-> exit code"""
    t0 = time.time()
    check_repo_import()
    mod = load_property(prop_id)
    # reference self-tests
    st_summary = {}
    for name, fn in getattr(mod, "SELFTESTS", []):
        try:
            st_summary[name] = fn()
        except Exception as e:
            print("HARNESS-ERROR reference self-test %s failed: %r" % (name, e))
            traceback.print_exc()
            return 2
    findings = load_findings(prop_id)
    violations = []          # (facet, fail)
    per_facet = {}
    # 1. corpus replay (plain check, no generator)
    cdir = os.path.join(VERIF_DIR, "corpus", prop_id)
    corpus_n = 0
    known_total = collections.Counter()
    if os.path.isdir(cdir):
        for fn in sorted(os.listdir(cdir)):
            if not fn.endswith(".json"):
                continue
            try:
                _, fname, fail, tl = replay_file(os.path.join(cdir, fn))
            except Exception as e:
                print("HARNESS-ERROR corpus %s: %r" % (fn, e))
                traceback.print_exc()
                return 2
            corpus_n += 1
            known_total.update(tl.known)
            if fail is not None:
                fail = dict(fail)
                fail["case"] = codec.enc(fail["case"])
                violations.append((fname, fail))
    # 2. facets
    joblist = []
    for f in mod.FACETS:
        if only and f.name not in only:
            continue
        k = f.shards.get(tier, 4)
        for s in range(k):
            joblist.append((prop_id, f.name, tier, seed, s, k))
        if f.strategy is not None and f.fuzz.get(tier) and not os.environ.get("VERIF_NO_FUZZ"):
            joblist.append((prop_id, f.name, tier, seed, "fuzz", f.fuzz[tier]))
    weight = getattr(mod, "WEIGHT", {})
    joblist.sort(key=lambda j: -weight.get(j[1], 1))
    results = []
    nproc = jobs or int(os.environ.get("VERIF_JOBS", "0")) or min(16, os.cpu_count() or 4)
    if nproc == 1 or len(joblist) == 1:
        results = [work(j) for j in joblist]
    else:
        import multiprocessing as mp
        # safety net only: a budget is a case count, never a time limit.  If the pool does not finish within the guard
        # (a non-terminating loop in the code under test, a dead worker) the run is INCONCLUSIVE: exit 2, never a VIOLATION.
        guard_s = float(os.environ.get("VERIF_TIMEOUT", "0") or 0) or (3600 if tier == "quick" else 8 * 3600)
        pool = mp.get_context("fork").Pool(min(nproc, len(joblist)), maxtasksperchild=1)
        try:
            results = pool.map_async(work, joblist, chunksize=1).get(timeout=guard_s)
            pool.close()
        except mp.TimeoutError:
            pool.terminate()
            print("HARNESS-ERROR inconclusive: workers did not finish within the %d s safety guard (VERIF_TIMEOUT); "
                  "no verdict on property %s" % (guard_s, prop_id))
            return 2
        finally:
            pool.join()
    harness_errors = [r for r in results if r["error"]]
    if harness_errors:
        for r in harness_errors[:3]:
            print("HARNESS-ERROR in %s\n%s" % (r["job"], r["error"]))
        return 2
    # 3. merge
    total_eval = 0
    total_rej = 0
    all_digests = set()
    nontriv = 0
    samples = []
    rules = []
    exhaustive_all = True
    for f in mod.FACETS:
        if only and f.name not in only:
            continue
        rs = [r for r in results if r["job"][1] == f.name]
        ev = sum(r["evaluations"] for r in rs)
        dg = set()
        for r in rs:
            dg |= r["digests"]
        nt = sum(r["nontrivial_count"] for r in rs) + len(dg)
        cls = collections.Counter()
        kn = collections.Counter()
        for r in rs:
            cls.update(r["classes"])
            kn.update(r["known"])
        known_total.update(kn)
        fsamples = []
        for r in rs:
            for s in r["samples"]:
                if len(fsamples) < MAX_SAMPLES:
                    fsamples.append(s)
        seen_sig = set()
        for r in rs:
            for fail in r["failures"]:
                if fail["signature"] in seen_sig:
                    continue
                seen_sig.add(fail["signature"])
                violations.append((f.name, fail))
        per_facet[f.name] = {
            "evaluations": ev, "distinct_nontrivial": nt,
            "exhaustive": f.is_exhaustive(tier),
            "engine": "enumeration" if f.cases is not None else "hypothesis",
            "rejected_as_allowed": sum(r["rejected"] for r in rs),
            "classes": dict(sorted(cls.items())), "known_excluded": dict(kn),
            "wall_s": round(max([r["wall"] for r in rs] or [0]), 2), "shards": len(rs),
            "samples": fsamples[:2],
        }
        fz = [r["fuzz"] for r in rs if r.get("fuzz")]
        if fz:
            per_facet[f.name]["atheris"] = fz[0]
            per_facet[f.name]["engine"] = "hypothesis + atheris(libFuzzer) on the same test"
        total_eval += ev
        total_rej += per_facet[f.name]["rejected_as_allowed"]
        nontriv += nt
        exhaustive_all = exhaustive_all and f.is_exhaustive(tier)
        samples.extend({"facet": f.name, "case": s} for s in fsamples[:2])
        if f.rule:
            rules.append("[%s] %s" % (f.name, f.rule))
    # 4. report
    code = 0
    for e in findings:
        if e.get("status") == "open":
            print("KNOWN-FINDING: property=%s %s (id=%s, excluded %d cases this run)" % (
                prop_id, e.get("what", ""), e["id"], known_total.get(e["id"], 0)))
    replay_paths = []
    for fname, fail in violations:
        path = write_replay(prop_id, fname, fail, seed, tier)
        replay_paths.append(path)
        print("VIOLATION property=%s replay=%s" % (prop_id, path))
        print("  facet=%s signature=%s" % (fname, fail["signature"]))
        print("  expected=%s" % json.dumps(fail.get("expected"))[:300])
        print("  actual=%s" % json.dumps(fail.get("actual"))[:300])
        code = 1
    wall = time.time() - t0
    import hypothesis
    ev = {
        "property_id": prop_id, "tier": tier, "seed": seed, "level": "exploration",
        "coverage": {
            "evaluations": total_eval, "distinct_nontrivial": nontriv,
            "rule": (getattr(mod, "RULE", "") + " " + " ".join(rules)).strip(),
            "samples": samples[:24],
            "exhaustive": bool(exhaustive_all and per_facet),
            "facets": per_facet,
            "rejected_as_allowed": total_rej,
            "known_excluded": dict(known_total),
            "corpus_replayed": corpus_n,
            "reference_selftests": st_summary,
            "engines": {"hypothesis": hypothesis.__version__, "python": sys.version.split()[0]},
            "repo": REPO,
        },
        "assumptions": list(getattr(mod, "ASSUMPTIONS", [])),
        "wall_s": round(wall, 2),
        "violations": len(violations),
    }
    extra = getattr(mod, "evidence_extra", None)
    if extra:
        ev["coverage"].update(extra(per_facet))
    evdir = os.environ.get("VERIF_EVIDENCE_DIR") or os.path.join(VERIF_DIR, "evidence")
    if only:            # partial (single-facet) runs never overwrite the registered evidence file
        evdir = os.path.join(VERIF_DIR, ".scratch", "partial-evidence")
    os.makedirs(evdir, exist_ok=True)
    tmp = os.path.join(evdir, ".%s.json.tmp" % prop_id)
    with open(tmp, "w") as f:
        json.dump(ev, f, indent=1, sort_keys=True)
    os.replace(tmp, os.path.join(evdir, "%s.json" % prop_id))
    print("%s tier=%s seed=%d: %d evaluations, %d distinct non-trivial, %d rejected-as-allowed, "
          "%d known-excluded, %d violation(s), %.1fs" % (
              prop_id, tier, seed, total_eval, nontriv, total_rej,
              sum(known_total.values()), len(violations), wall))
    return code
